package main

import (
	"runtime/pprof"
	"encoding/json"
	"flag"
	"fmt"
	"go/ast"
	"go/parser"
	"go/token"
	"os"
	"os/exec"
	"path/filepath"
	"regexp"
	"sort"
	"strconv"
	"strings"
	"sync"
	"time"

	"golang.org/x/tools/go/packages"
	"golang.org/x/tools/go/ssa"
	"golang.org/x/tools/go/ssa/ssautil"
)

const modPath = "github.com/cloudflare/circl"

type harnessDecl struct {
	Name    string
	RelDir  string // package dir relative to repo root
	File    string
	Opts    HarnessOpts
	PkgName string
}

func parseDirective(doc string, o *HarnessOpts) {
	for _, line := range strings.Split(doc, "\n") {
		line = strings.TrimSpace(line)
		if !strings.HasPrefix(line, "zz:") {
			continue
		}
		for _, kv := range strings.Fields(line[3:]) {
			p := strings.SplitN(kv, "=", 2)
			if len(p) != 2 {
				continue
			}
			switch p[0] {
			case "prop":
				o.Prop = p[1]
			case "also": // further properties under which this harness is run as well (comma list)
				o.Also = strings.Split(p[1], ",")
			case "tier":
				o.Tier = p[1]
			case "backend":
				o.Backend = p[1]
			case "timeout":
				o.TimeoutS, _ = strconv.Atoi(p[1])
			case "maxpaths":
				o.MaxPaths, _ = strconv.Atoi(p[1])
			case "panics":
				o.PanicsOK = p[1] == "ok"
			case "merge":
				o.NoMerge = p[1] == "off"
			case "solvers":
				o.Solvers = strings.Split(p[1], ",")
			case "expect":
				o.ExpectFail = p[1] == "fail"
			case "maxconc":
				o.MaxConc, _ = strconv.Atoi(p[1])
			case "budget":
				o.BudgetS, _ = strconv.Atoi(p[1])
			case "use":
				o.Use = strings.Split(p[1], ",")
			case "workers":
				o.Workers, _ = strconv.Atoi(p[1])
			}
		}
	}
}

type stubDecl struct {
	Target string // function name as printed by ssa (module path stripped)
	Func   string // harness-side function name
	RelDir string
	Set    string
}

var allStubs []stubDecl

func discover(hdir string) ([]harnessDecl, error) {
	var out []harnessDecl
	allStubs = nil
	fset := token.NewFileSet()
	err := filepath.Walk(hdir, func(p string, info os.FileInfo, err error) error {
		if err != nil || info.IsDir() || !strings.HasSuffix(p, ".go") {
			return err
		}
		f, err := parser.ParseFile(fset, p, nil, parser.ParseComments)
		if err != nil {
			return fmt.Errorf("harness %s: %v", p, err)
		}
		rel, _ := filepath.Rel(hdir, filepath.Dir(p))
		for _, d := range f.Decls {
			fd, ok := d.(*ast.FuncDecl)
			if ok && fd.Recv == nil && fd.Doc != nil {
				for _, cm := range fd.Doc.List {
					line := strings.TrimSpace(strings.TrimPrefix(cm.Text, "//"))
					if strings.HasPrefix(line, "zz:replace ") {
						fs := strings.Fields(line[len("zz:replace "):])
						sd := stubDecl{Target: fs[0], Func: fd.Name.Name, RelDir: rel, Set: "default"}
						for _, kv := range fs[1:] {
							if strings.HasPrefix(kv, "set=") {
								sd.Set = kv[4:]
							}
						}
						allStubs = append(allStubs, sd)
					}
				}
			}
			if !ok || fd.Recv != nil || !strings.HasPrefix(fd.Name.Name, "ZZ_") {
				continue
			}
			o := HarnessOpts{Tier: "quick", Backend: "bv"}
			if fd.Doc != nil {
				var raw []string
				for _, cm := range fd.Doc.List {
					raw = append(raw, strings.TrimSpace(strings.TrimPrefix(cm.Text, "//")))
				}
				parseDirective(strings.Join(raw, "\n"), &o)
			}
			if o.Prop == "" {
				parts := strings.Split(fd.Name.Name, "_")
				if len(parts) > 1 {
					o.Prop = parts[1]
				}
			}
			out = append(out, harnessDecl{Name: fd.Name.Name, RelDir: rel, File: p, Opts: o, PkgName: f.Name.Name})
		}
		return nil
	})
	sort.Slice(out, func(i, j int) bool { return out[i].RelDir+out[i].Name < out[j].RelDir+out[j].Name })
	return out, err
}

type KnownFinding struct {
	Property string `json:"property"`
	Harness  string `json:"harness"`
	Kind     string `json:"kind"`
	Label    string `json:"label"`  // substring match
	File     string `json:"file"`   // substring of position
	What     string `json:"what"`   // human description
	Status   string `json:"status"` // "known" | "fixed"
	Commit   string `json:"commit,omitempty"`
}

func loadKnown(path string) []KnownFinding {
	var k struct {
		Findings []KnownFinding `json:"findings"`
	}
	data, err := os.ReadFile(path)
	if err != nil {
		return nil
	}
	if err := json.Unmarshal(data, &k); err != nil {
		fmt.Fprintf(os.Stderr, "known findings file unreadable: %v\n", err)
		os.Exit(2)
	}
	return k.Findings
}

func matchKnown(ks []KnownFinding, prop string, f *Finding) *KnownFinding {
	for i := range ks {
		k := &ks[i]
		if k.Status == "fixed" {
			continue
		}
		if k.Property == prop && k.Harness == f.Harness && k.Kind == f.Kind && strings.Contains(f.Label, k.Label) && strings.Contains(f.Pos, k.File) {
			return k
		}
	}
	return nil
}

var (
	flagRepo    = flag.String("repo", "/repo", "repository root")
	flagHarness = flag.String("harness", "/verif/harness", "harness directory")
	flagProp    = flag.String("prop", "", "property id")
	flagTier    = flag.String("tier", "quick", "quick|thorough")
	flagOut     = flag.String("out", "", "evidence file")
	flagOnly    = flag.String("only", "", "regexp on harness names")
	flagJ       = flag.Int("j", 8, "parallel harnesses")
	flagW       = flag.Int("w", 4, "path workers per harness")
	flagKnown   = flag.String("known", "/verif/known_findings.json", "known findings file")
	flagReplay  = flag.String("replaydir", "/verif/replay/out", "directory for counterexample files")
	flagV       = flag.Bool("v", false, "verbose")
	flagNoRep   = flag.Bool("noreplay", false, "skip native replay")
	flagTags    = flag.String("tags", "purego,math_big_pure_go,appengine", "build tags for analysis")
)

func main() {
	if len(os.Args) < 2 {
		fmt.Fprintln(os.Stderr, "usage: gosmt check|replay|list ...")
		os.Exit(2)
	}
	cmd := os.Args[1]
	flag.CommandLine.Parse(os.Args[2:])
	switch cmd {
	case "check":
		if pf := os.Getenv("GOSMT_PPROF"); pf != "" {
			f, _ := os.Create(pf)
			pprof.StartCPUProfile(f)
			go func() {
				time.Sleep(90 * time.Second)
				pprof.StopCPUProfile()
				f.Close()
			}()
		}
		os.Exit(cmdCheck())
	case "list":
		hs, err := discover(*flagHarness)
		if err != nil {
			fmt.Fprintln(os.Stderr, err)
			os.Exit(2)
		}
		for _, h := range hs {
			fmt.Printf("%s %s %s tier=%s backend=%s\n", h.Opts.Prop, h.RelDir, h.Name, h.Opts.Tier, h.Opts.Backend)
		}
	case "replay":
		os.Exit(cmdReplay(flag.Arg(0)))
	default:
		fmt.Fprintln(os.Stderr, "unknown command", cmd)
		os.Exit(2)
	}
}

func libSource(pkgName string) []byte {
	exe, _ := os.Executable()
	cands := []string{filepath.Join(filepath.Dir(exe), "zzlib.go.tmpl"), "/verif/engine/zzlib.go.tmpl"}
	for _, c := range cands {
		if data, err := os.ReadFile(c); err == nil {
			return []byte(strings.Replace(string(data), "package PKGNAME", "package "+pkgName, 1))
		}
	}
	fmt.Fprintln(os.Stderr, "zzlib.go.tmpl not found")
	os.Exit(2)
	return nil
}

// buildOverlay returns overlay map (virtual path -> content) for the given harness decls.
func buildOverlay(hs []harnessDecl, repo string) map[string][]byte {
	ov := map[string][]byte{}
	libDone := map[string]bool{}
	for _, h := range hs {
		data, err := os.ReadFile(h.File)
		if err != nil {
			fmt.Fprintln(os.Stderr, err)
			os.Exit(2)
		}
		ov[filepath.Join(repo, h.RelDir, "zz_h_"+filepath.Base(h.File))] = data
		if !libDone[h.RelDir] {
			libDone[h.RelDir] = true
			ov[filepath.Join(repo, h.RelDir, "zz_lib_verif.go")] = libSource(h.PkgName)
		}
	}
	return ov
}

type HarnessReport struct {
	Name        string             `json:"harness"`
	Pkg         string             `json:"package"`
	Backend     string             `json:"backend"`
	Verdict     string             `json:"verdict"` // held | violated | inconclusive | known-finding
	Paths       int                `json:"paths"`
	Completed   int                `json:"completed_paths"`
	Steps       int64              `json:"ssa_instructions"`
	Queries     int                `json:"queries"`
	Unsat       int                `json:"unsat"`
	Sat         int                `json:"sat"`
	Unknown     int                `json:"unknown"`
	SolverSecs  map[string]float64 `json:"solver_seconds"`
	MaxQueryS   float64            `json:"max_query_seconds"`
	TermNodes   int                `json:"max_query_term_nodes"`
	WallS       float64            `json:"wall_s"`
	Obligations []OblStat          `json:"obligations"`
	Assumes     []string           `json:"assumes,omitempty"`
	Stubs       []string           `json:"stubs,omitempty"`
	Funcs       []string           `json:"functions_encoded,omitempty"`
	Incon       []string           `json:"inconclusive,omitempty"`
	Findings    []*Finding         `json:"findings,omitempty"`
	Log         []string           `json:"log,omitempty"`
	Inputs      int                `json:"symbolic_inputs"`
	TimeoutS    int                `json:"query_timeout_s"`
}

func cmdCheck() int {
	t0 := time.Now()
	all, err := discover(*flagHarness)
	if err != nil {
		fmt.Fprintln(os.Stderr, err)
		return 2
	}
	var only *regexp.Regexp
	if *flagOnly != "" {
		only = regexp.MustCompile(*flagOnly)
	}
	var hs []harnessDecl
	for _, h := range all {
		if *flagProp != "" && h.Opts.Prop != *flagProp {
			also := false
			for _, a := range h.Opts.Also {
				also = also || a == *flagProp
			}
			if !also {
				continue
			}
			h.Opts.Prop = *flagProp
		}
		if *flagTier == "quick" && h.Opts.Tier != "quick" {
			continue
		}
		// tier=deep: attempted harnesses whose queries do not finish within reach; not part of the
		// registered quick/thorough commands (run with -tier deep), listed in DESIGN.md
		if *flagTier != "deep" && h.Opts.Tier == "deep" {
			continue
		}
		if only != nil && !only.MatchString(h.Name) {
			continue
		}
		hs = append(hs, h)
	}
	if len(hs) == 0 {
		fmt.Fprintln(os.Stderr, "no harnesses selected")
		return 3
	}
	// overlay needs all harness files of the involved packages (they may share helpers)
	dirs := map[string]bool{}
	for _, h := range hs {
		dirs[h.RelDir] = true
		// packages that provide stub sets used by this harness are overlaid and loaded as well
		for _, u := range h.Opts.Use {
			for _, sd := range allStubs {
				if sd.Set == u {
					dirs[sd.RelDir] = true
				}
			}
		}
	}
	// closure: an overlaid directory's files may refer to helpers exported by the stub-set
	// directories that any of its harnesses use
	for changed := true; changed; {
		changed = false
		for _, h := range all {
			if !dirs[h.RelDir] {
				continue
			}
			for _, u := range h.Opts.Use {
				for _, sd := range allStubs {
					if sd.Set == u && !dirs[sd.RelDir] {
						dirs[sd.RelDir] = true
						changed = true
					}
				}
			}
		}
	}
	var ovDecls []harnessDecl
	seenFile := map[string]bool{}
	for _, h := range all {
		if dirs[h.RelDir] {
			seenFile[h.File] = true
			ovDecls = append(ovDecls, h)
		}
	}
	// helper-only files (no ZZ_ funcs) in those dirs
	for d := range dirs {
		matches, _ := filepath.Glob(filepath.Join(*flagHarness, d, "*.go"))
		for _, m := range matches {
			if !seenFile[m] {
				seenFile[m] = true
				pn := ""
				for _, h := range all {
					if h.RelDir == d {
						pn = h.PkgName
					}
				}
				if pn == "" {
					if f, err := parser.ParseFile(token.NewFileSet(), m, nil, parser.PackageClauseOnly); err == nil {
						pn = f.Name.Name
					}
				}
				ovDecls = append(ovDecls, harnessDecl{RelDir: d, File: m, PkgName: pn})
			}
		}
	}
	var patterns []string
	for d := range dirs {
		patterns = append(patterns, modPath+"/"+d)
	}
	sort.Strings(patterns)
	// Load; a harness file that no longer compiles against the current tree (it names an internal
	// function that a change renamed or removed) is dropped and its harnesses are reported as
	// inconclusive, so that the remaining harnesses still run.
	var pkgs []*packages.Package
	var droppedHarness []harnessDecl
	for attempt := 0; ; attempt++ {
		overlay := buildOverlay(ovDecls, *flagRepo)
		cfg := &packages.Config{Mode: packages.LoadAllSyntax, Dir: *flagRepo, BuildFlags: []string{"-tags=" + *flagTags}, Overlay: overlay,
			Env: append(os.Environ(), "GOFLAGS=-mod=mod", "GOPROXY=off", "GOSUMDB=off", "GOTOOLCHAIN=local")}
		var err error
		pkgs, err = packages.Load(cfg, patterns...)
		if err != nil {
			fmt.Fprintln(os.Stderr, "load:", err)
			return 2
		}
		badFiles := map[string]bool{}
		other := false
		packages.Visit(pkgs, nil, func(p *packages.Package) {
			for _, e := range p.Errors {
				fmt.Fprintf(os.Stderr, "package %s: %v\n", p.PkgPath, e)
				file := e.Pos
				if i := strings.Index(file, ":"); i >= 0 {
					file = file[:i]
				}
				if strings.HasPrefix(filepath.Base(file), "zz_h_") {
					badFiles[file] = true
				} else {
					other = true
				}
			}
		})
		if len(badFiles) == 0 && !other {
			break
		}
		if len(badFiles) == 0 || attempt >= 3 {
			return 2
		}
		var keep []harnessDecl
		for _, d := range ovDecls {
			if badFiles[filepath.Join(*flagRepo, d.RelDir, "zz_h_"+filepath.Base(d.File))] {
				if d.Name != "" {
					droppedHarness = append(droppedHarness, d)
				}
				continue
			}
			keep = append(keep, d)
		}
		ovDecls = keep
		var keepH []harnessDecl
		for _, h := range hs {
			if !badFiles[filepath.Join(*flagRepo, h.RelDir, "zz_h_"+filepath.Base(h.File))] {
				keepH = append(keepH, h)
			}
		}
		hs = keepH
		fmt.Fprintf(os.Stderr, "dropping %d harness file(s) that do not compile against this tree and retrying\n", len(badFiles))
	}
	prog, _ := ssautil.AllPackages(pkgs, ssa.InstantiateGenerics)
	prog.Build()
	loadS := time.Since(t0).Seconds()

	known := loadKnown(*flagKnown)
	reports := make([]*HarnessReport, len(hs))
	var wg sync.WaitGroup
	sem := make(chan struct{}, *flagJ)
	for i, h := range hs {
		var sp *ssa.Package
		for _, p := range prog.AllPackages() {
			if p.Pkg.Path() == modPath+"/"+h.RelDir {
				sp = p
			}
		}
		if sp == nil {
			fmt.Fprintf(os.Stderr, "package for %s not found\n", h.Name)
			return 2
		}
		fn := sp.Func(h.Name)
		if fn == nil {
			fmt.Fprintf(os.Stderr, "harness %s not found in %s\n", h.Name, sp.Pkg.Path())
			return 2
		}
		wg.Add(1)
		go func(i int, h harnessDecl, fn *ssa.Function) {
			defer wg.Done()
			sem <- struct{}{}
			defer func() { <-sem }()
			reports[i] = runHarness(h, fn, prog)
			if *flagV {
				rp := reports[i]
				fmt.Fprintf(os.Stderr, "[%s] %s: %s paths=%d queries=%d wall=%.1fs %v\n", h.Opts.Prop, h.Name, rp.Verdict, rp.Paths, rp.Queries, rp.WallS, rp.Incon)
			}
		}(i, h, fn)
	}
	wg.Wait()

	// replay + classify
	exit := 0
	os.MkdirAll(*flagReplay, 0o755)
	nReplayed := 0
	var violLines, knownLines []string
	for i, rp := range reports {
		h := hs[i]
		for _, f := range rp.Findings {
			if h.Opts.ExpectFail {
				continue
			}
			if k := matchKnown(known, h.Opts.Prop, f); k != nil {
				f.Known = k.What
				knownLines = append(knownLines, fmt.Sprintf("KNOWN-FINDING: property=%s %s", h.Opts.Prop, k.What))
				continue
			}
			file := filepath.Join(*flagReplay, fmt.Sprintf("%s_%s_%d.json", h.Opts.Prop, h.Name, len(violLines)))
			writeReplayFile(file, h, f)
			f.Replay = file
			if f.Status == "" && *flagNoRep {
				f.Status = "not replayed"
			}
			if f.Status == "abstract" {
				f.Status = "abstract-level counterexample over free partial products (not natively replayable)"
			} else if !*flagNoRep {
				st := nativeReplay(file, h, f, ovDecls)
				nReplayed++
				// try alternative models of the same failure (other paths), input-only ones first
				sort.SliceStable(f.Alts, func(i, j int) bool { return !f.Alts[i].UFDep && f.Alts[j].UFDep })
				for _, a := range f.Alts {
					if strings.HasPrefix(st, "confirmed") {
						break
					}
					writeReplayFile(file, h, a)
					st2 := nativeReplay(file, h, a, ovDecls)
					nReplayed++
					if strings.HasPrefix(st2, "confirmed") {
						st = st2
						f.Model, f.Lens, f.Path = a.Model, a.Lens, a.Path
					}
				}
				if !strings.HasPrefix(st, "confirmed") {
					writeReplayFile(file, h, f)
				}
				f.Status = st
			}
			usesUF := false
			for _, st := range rp.Stubs {
				if strings.HasPrefix(st, "UF:") {
					usesUF = true
				}
			}
			if h.Opts.Backend == "nra" {
				usesUF = true // abstract-field harness: the native model is a rational stand-in, not the solver's field
			}
			if f.Status == "not-reproduced" && usesUF {
				// glue-level harness over uninterpreted primitives: the solver's model fixes values of the
				// uninterpreted functions, which the natively compiled primitives do not take; the
				// counterexample is real at the model level and is reported as such
				f.Status = "model-level counterexample (depends on values of uninterpreted primitives; native replay with the real primitives does not follow the same path)"
			}
			if f.Status == "not-reproduced" {
				// the model does not fail natively: the encoding or a stub is wrong (tooling error, not a violation)
				rp.Incon = append(rp.Incon, fmt.Sprintf("spurious counterexample (%s %q at %s) not reproduced by native replay %s", f.Kind, f.Label, f.Pos, file))
				f.Known = "spurious"
				continue
			}
			violLines = append(violLines, fmt.Sprintf("VIOLATION property=%s replay=%s", h.Opts.Prop, file))
			fmt.Fprintf(os.Stderr, "  finding in %s: %s %q at %s [%s]\n", h.Name, f.Kind, f.Label, f.Pos, f.Status)
		}
		// verdict
		switch {
		case h.Opts.ExpectFail:
			if len(rp.Findings) == 0 {
				rp.Verdict = "inconclusive"
				rp.Incon = append(rp.Incon, "self-test harness expected a violation but none was found")
			} else {
				rp.Verdict = "held"
				rp.Findings = nil
			}
		case len(rp.Findings) > 0:
			allKnown := true
			for _, f := range rp.Findings {
				if f.Known == "" {
					allKnown = false
				}
			}
			onlySpurious := true
			for _, f := range rp.Findings {
				if f.Known != "spurious" {
					onlySpurious = false
				}
			}
			if onlySpurious {
				rp.Verdict = "inconclusive"
				break
			}
			if allKnown {
				rp.Verdict = "known-finding"
			} else {
				rp.Verdict = "violated"
			}
		case len(rp.Incon) > 0:
			rp.Verdict = "inconclusive"
		default:
			rp.Verdict = "held"
		}
		if rp.Verdict == "violated" {
			exit = 1
		}
		if (rp.Verdict == "inconclusive" || (rp.Verdict == "known-finding" && len(rp.Incon) > 0)) && exit == 0 {
			exit = 2
		}
	}
	for _, d := range droppedHarness {
		if *flagProp != "" && d.Opts.Prop != *flagProp {
			also := false
			for _, a := range d.Opts.Also {
				also = also || a == *flagProp
			}
			if !also {
				continue
			}
		}
		reports = append(reports, &HarnessReport{Name: d.Name, Pkg: d.RelDir, Backend: d.Opts.Backend, Verdict: "inconclusive",
			Incon: []string{"harness file does not compile against this tree (an internal declaration it names changed)"}})
		if exit == 0 {
			exit = 2
		}
	}
	seen := map[string]bool{}
	for _, l := range knownLines {
		if !seen[l] {
			seen[l] = true
			fmt.Println(l)
		}
	}
	for _, l := range violLines {
		fmt.Println(l)
	}
	for _, rp := range reports {
		if rp.Verdict == "inconclusive" {
			fmt.Fprintf(os.Stderr, "INCONCLUSIVE %s: %s\n", rp.Name, strings.Join(rp.Incon, "; "))
		}
	}
	if *flagOut != "" {
		writeEvidence(*flagOut, *flagProp, *flagTier, reports, time.Since(t0).Seconds(), loadS, nReplayed, len(violLines), knownLines)
	}
	held := 0
	for _, rp := range reports {
		if rp.Verdict == "held" || rp.Verdict == "known-finding" {
			held++
		}
	}
	fmt.Fprintf(os.Stderr, "%s %s: %d/%d harnesses held, %d violations, exit %d, %.1fs\n", *flagProp, *flagTier, held, len(reports), len(violLines), exit, time.Since(t0).Seconds())
	return exit
}

func runHarness(h harnessDecl, fn *ssa.Function, prog *ssa.Program) (rep *HarnessReport) {
	t0 := time.Now()
	opts := h.Opts
	if *flagTier == "thorough" && opts.TimeoutS > 0 && opts.TimeoutS < 600 {
		// thorough tier allows longer solver time
		opts.TimeoutS *= 3
	}
	r := newHarnessRun(h.Name, fn, prog, opts)
	r.Pkg = h.RelDir
	use := map[string]bool{"default": true}
	for _, u := range opts.Use {
		if u == "none" {
			delete(use, "default")
		} else {
			use[u] = true
		}
	}
	for _, sd := range allStubs {
		if !use[sd.Set] {
			continue
		}
		var sp *ssa.Package
		for _, p := range prog.AllPackages() {
			if p.Pkg.Path() == modPath+"/"+sd.RelDir {
				sp = p
			}
		}
		if sp == nil {
			fmt.Fprintf(os.Stderr, "warning: package %s of stub %s not loaded\n", sd.RelDir, sd.Func)
			continue
		}
		if sf := sp.Func(sd.Func); sf != nil {
			// several packages may provide a stub for the same target: the harness's own package wins
			if _, have := r.stubFns[sd.Target]; !have || sd.RelDir == h.RelDir {
				r.stubFns[sd.Target] = sf
			}
		} else {
			fmt.Fprintf(os.Stderr, "warning: stub function %s not found in %s\n", sd.Func, sd.RelDir)
		}
	}
	func() {
		defer func() {
			if rec := recover(); rec != nil {
				r.incon = append(r.incon, fmt.Sprintf("executor crashed: %v", rec))
				r.closeSolvers()
			}
		}()
		w := *flagW
		if opts.Workers > 0 {
			w = opts.Workers
		}
		r.runAll(w)
	}()
	rep = &HarnessReport{Name: h.Name, Pkg: h.RelDir, Backend: opts.Backend, Paths: r.stats.Paths, Completed: r.completed, Steps: r.stats.Steps,
		Queries: r.stats.Queries, Unsat: r.stats.Unsat, Sat: r.stats.Sat, Unknown: r.stats.Unknown, SolverSecs: r.stats.SolverSecs,
		MaxQueryS: r.stats.MaxQueryS, TermNodes: r.stats.TermNodes, WallS: time.Since(t0).Seconds(), Findings: r.findings, Log: r.log,
		TimeoutS: r.opts.TimeoutS}
	if r.completed == 0 && len(r.findings) == 0 {
		r.incon = append(r.incon, "vacuous: no feasible path reached the end of the harness")
	}
	rep.Incon = dedupe(r.incon)
	for _, o := range r.obls {
		rep.Obligations = append(rep.Obligations, *o)
	}
	sort.Slice(rep.Obligations, func(i, j int) bool {
		a, b := rep.Obligations[i], rep.Obligations[j]
		return a.Kind+a.Label+a.Pos < b.Kind+b.Label+b.Pos
	})
	rep.Assumes = keys(r.assumes)
	rep.Stubs = keys(r.stubs)
	rep.Funcs = keys(r.funcs)
	in := map[string]bool{}
	for _, n := range r.inputs {
		in[n] = true
	}
	rep.Inputs = len(in)
	return rep
}

func dedupe(xs []string) []string {
	seen := map[string]bool{}
	var out []string
	for _, x := range xs {
		if !seen[x] {
			seen[x] = true
			out = append(out, x)
		}
	}
	if len(out) > 40 {
		out = append(out[:40], fmt.Sprintf("... %d more", len(out)-40))
	}
	return out
}

func keys(m map[string]bool) []string {
	var out []string
	for k := range m {
		out = append(out, k)
	}
	sort.Strings(out)
	return out
}

type replayFile struct {
	Property string            `json:"property"`
	Harness  string            `json:"harness"`
	Package  string            `json:"package"`
	Kind     string            `json:"kind"`
	Label    string            `json:"label"`
	Pos      string            `json:"pos"`
	Vars     map[string]string `json:"vars"`
	Lens     map[string]int    `json:"lens"`
	Path     []int             `json:"path"`
}

func writeReplayFile(file string, h harnessDecl, f *Finding) {
	if *flagTier != "quick" {
		if f.Model == nil {
			f.Model = map[string]string{}
		}
		f.Model["zz.tier"] = "1" // zzThorough() in the native replay
	}
	rf := replayFile{Property: h.Opts.Prop, Harness: h.Name, Package: h.RelDir, Kind: f.Kind, Label: f.Label, Pos: f.Pos, Vars: f.Model, Lens: f.Lens, Path: f.Path}
	data, _ := json.MarshalIndent(rf, "", " ")
	os.WriteFile(file, data, 0o644)
}

// nativeReplay runs the harness natively (go test with overlay) on the model's input.
// nativeReplay runs the counterexample against the natively compiled code: first in the default
// build (what users run), and - when that does not reproduce it and the analysis was made under the
// purego tag - again with -tags purego: portable Go bodies that have an assembly twin are only
// compiled into that build, a defect in them is real there (and breaks C14's "all builds agree").
func nativeReplay(file string, h harnessDecl, f *Finding, ovDecls []harnessDecl) string {
	st := nativeReplayTags(file, h, f, ovDecls, "")
	if st == "not-reproduced" && strings.Contains(*flagTags, "purego") {
		if st2 := nativeReplayTags(file, h, f, ovDecls, "purego"); strings.HasPrefix(st2, "confirmed") {
			return st2 + " under -tags purego (the default build takes another implementation)"
		}
	}
	return st
}

func nativeReplayTags(file string, h harnessDecl, f *Finding, ovDecls []harnessDecl, tags string) string {
	out, err := runNative(file, h.RelDir, h.Name, h.PkgName, ovDecls, tags)
	_ = err
	switch f.Kind {
	case "assert":
		if strings.Contains(out, "ZZ-ASSERT-FAILED: "+f.Label) {
			return "confirmed"
		}
		if strings.Contains(out, "ZZ-ASSERT-FAILED: ") {
			return "confirmed (an earlier assertion of the same run fails first natively)"
		}
		if strings.Contains(out, "ZZ-MODEL-ONLY") {
			return "model-level"
		}
	default:
		if strings.Contains(out, "panic:") && !strings.Contains(out, "ZZ-ASSERT-FAILED") && !strings.Contains(out, "ZZ-MODEL-ONLY") {
			return "confirmed"
		}
		if strings.Contains(out, "ZZ-MODEL-ONLY") {
			return "model-level"
		}
	}
	if strings.Contains(out, "ZZ-REPLAY-OK") {
		return "not-reproduced"
	}
	return "replay-error: " + firstLine(strings.TrimSpace(lastLines(out, 3)))
}

func lastLines(s string, n int) string {
	ls := strings.Split(strings.TrimSpace(s), "\n")
	if len(ls) > n {
		ls = ls[len(ls)-n:]
	}
	return strings.Join(ls, " | ")
}

func runNative(file, relDir, harness, pkgName string, ovDecls []harnessDecl, tags string) (string, error) {
	tmp, err := os.MkdirTemp("", "gosmt-replay")
	if err != nil {
		return "", err
	}
	defer os.RemoveAll(tmp)
	repl := map[string]string{}
	n := 0
	var names []string
	libDone := map[string]bool{relDir: true}
	for _, d := range ovDecls {
		repl[filepath.Join(*flagRepo, d.RelDir, "zz_h_"+filepath.Base(d.File))] = d.File
		if d.RelDir != relDir {
			// stub-set files of other packages may export helpers the harness refers to: compile them
			// natively too (their replaced functions are simply unused there)
			if !libDone[d.RelDir] && d.PkgName != "" {
				libDone[d.RelDir] = true
				l2 := filepath.Join(tmp, fmt.Sprintf("zz_lib_verif_%d.go", len(libDone)))
				os.WriteFile(l2, libSource(d.PkgName), 0o644)
				repl[filepath.Join(*flagRepo, d.RelDir, "zz_lib_verif.go")] = l2
			}
			continue
		}
		if d.Name != "" {
			names = append(names, d.Name)
		}
		n++
	}
	lib := filepath.Join(tmp, "zz_lib_verif.go")
	os.WriteFile(lib, libSource(pkgName), 0o644)
	repl[filepath.Join(*flagRepo, relDir, "zz_lib_verif.go")] = lib
	// test driver
	var sb strings.Builder
	fmt.Fprintf(&sb, "package %s\n\nimport (\n\t\"os\"\n\t\"testing\"\n)\n\nfunc TestZZReplay(t *testing.T) {\n\tswitch os.Getenv(\"ZZ_HARNESS\") {\n", pkgName)
	seen := map[string]bool{}
	for _, nm := range names {
		if seen[nm] {
			continue
		}
		seen[nm] = true
		fmt.Fprintf(&sb, "\tcase %q:\n\t\t%s()\n", nm, nm)
	}
	sb.WriteString("\tdefault:\n\t\tt.Fatal(\"unknown harness\")\n\t}\n\tprintln(\"ZZ-REPLAY-OK\")\n}\n")
	drv := filepath.Join(tmp, "zz_replay_verif_test.go")
	os.WriteFile(drv, []byte(sb.String()), 0o644)
	repl[filepath.Join(*flagRepo, relDir, "zz_replay_verif_test.go")] = drv
	ovj, _ := json.Marshal(map[string]interface{}{"Replace": repl})
	ovf := filepath.Join(tmp, "overlay.json")
	os.WriteFile(ovf, ovj, 0o644)
	args := []string{"test", "-v", "-vet=off", "-count=1", "-overlay", ovf, "-run", "^TestZZReplay$", "-timeout", "300s"}
	if tags != "" {
		args = append(args, "-tags", tags)
	}
	args = append(args, "./"+relDir)
	cmd := exec.Command("go", args...)
	cmd.Dir = *flagRepo
	cmd.Env = append(os.Environ(), "GOFLAGS=-mod=mod", "GOPROXY=off", "GOSUMDB=off", "GOTOOLCHAIN=local", "ZZ_REPLAY="+file, "ZZ_HARNESS="+harness)
	out, err := cmd.CombinedOutput()
	return string(out), err
}

func cmdReplay(file string) int {
	data, err := os.ReadFile(file)
	if err != nil {
		fmt.Fprintln(os.Stderr, err)
		return 2
	}
	var rf replayFile
	if err := json.Unmarshal(data, &rf); err != nil {
		fmt.Fprintln(os.Stderr, err)
		return 2
	}
	all, err := discover(*flagHarness)
	if err != nil {
		fmt.Fprintln(os.Stderr, err)
		return 2
	}
	var ov []harnessDecl
	pkgName := ""
	seen := map[string]bool{}
	for _, h := range all {
		if h.RelDir == rf.Package {
			ov = append(ov, h)
			pkgName = h.PkgName
			seen[h.File] = true
		}
	}
	matches, _ := filepath.Glob(filepath.Join(*flagHarness, rf.Package, "*.go"))
	for _, m := range matches {
		if !seen[m] {
			ov = append(ov, harnessDecl{RelDir: rf.Package, File: m, PkgName: pkgName})
		}
	}
	abs, _ := filepath.Abs(file)
	out, _ := runNative(abs, rf.Package, rf.Harness, pkgName, ov, "")
	fmt.Print(out)
	if strings.Contains(out, "ZZ-REPLAY-OK") {
		fmt.Println("replay: harness completed without failure")
		return 0
	}
	fmt.Println("replay: failure reproduced")
	return 1
}

func writeEvidence(out, prop, tier string, reports []*HarnessReport, wall, loadS float64, nReplayed, nViol int, knownLines []string) {
	type sample struct {
		Harness string    `json:"harness"`
		Verdict string    `json:"verdict"`
		Obls    []OblStat `json:"obligations,omitempty"`
	}
	var states, trans, obl, disch, queries, funcsN int
	solver := map[string]float64{}
	var samples []sample
	assumes := map[string]bool{}
	stubs := map[string]bool{}
	undis := []string{}
	if knownLines == nil {
		knownLines = []string{}
	}
	for _, rp := range reports {
		states += rp.Paths
		trans += int(rp.Steps)
		queries += rp.Queries
		for k, v := range rp.SolverSecs {
			solver[k] += v
		}
		for _, o := range rp.Obligations {
			obl++
			if o.Sat == 0 && o.Unk == 0 {
				disch++
			} else {
				undis = append(undis, fmt.Sprintf("%s: %s %q at %s (sat=%d unknown=%d)", rp.Name, o.Kind, o.Label, o.Pos, o.Sat, o.Unk))
			}
		}
		s := sample{Harness: rp.Name, Verdict: rp.Verdict}
		if len(samples) < 6 {
			s.Obls = rp.Obligations
			if len(s.Obls) > 8 {
				s.Obls = s.Obls[:8]
			}
		}
		samples = append(samples, s)
		for _, a := range rp.Assumes {
			assumes[a] = true
		}
		for _, a := range rp.Stubs {
			stubs[a] = true
		}
		funcsN += len(rp.Funcs)
	}
	seed, _ := strconv.Atoi(os.Getenv("VERIF_SEED"))
	ev := map[string]interface{}{
		"property_id": prop,
		"tier":        tier,
		"seed":        seed,
		"level":       "model_checking",
		"wall_s":      wall,
		"violations":  nViol,
		"coverage": map[string]interface{}{
			"states":                        states,
			"transitions":                   trans,
			"traces_validated_against_impl": nReplayed,
			"samples":                       samples,
			"obligations":                   obl,
			"discharged":                    disch,
			"undischarged":                  undis,
			"queries":                       queries,
			"solver_seconds":                solver,
			"load_seconds":                  loadS,
			"harnesses":                     reports,
			"known_findings_matched":        knownLines,
			"explanation":                   "states = feasible symbolic paths explored; transitions = go/ssa instructions executed symbolically; each obligation is an SMT query (pc ∧ ¬property) answered unsat for every input within the bounds stated per harness",
		},
		"assumptions": append(append([]string{"go/ssa (x/tools v0.29.0) rendering of the source and the executor's instruction semantics are trusted", "build tags purego: generic Go code paths"}, keys(assumes)...), prefixAll("stub: ", keys(stubs))...),
	}
	data, _ := json.MarshalIndent(ev, "", " ")
	os.MkdirAll(filepath.Dir(out), 0o755)
	if err := os.WriteFile(out, data, 0o644); err != nil {
		fmt.Fprintln(os.Stderr, "cannot write evidence:", err)
	}
}

func prefixAll(p string, xs []string) []string {
	out := make([]string, len(xs))
	for i, x := range xs {
		out[i] = p + x
	}
	return out
}
