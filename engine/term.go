package main

// Term layer: hash-consed DAG of bit-vector / bool / int / real terms with a
// light simplifier and a concrete evaluator.

import (
	"fmt"
	"math/big"
	"sort"
	"strings"
)

type Sort int // >0: BV width; 0: Bool; -1: Int; -2: Real

const (
	SBool Sort = 0
	SInt  Sort = -1
	SReal Sort = -2
)

type Op uint8

const (
	OConst Op = iota
	OVar
	OAdd
	OSub
	OMul
	OUDiv
	OURem
	OSDiv
	OSRem
	ONeg
	OAnd
	OOr
	OXor
	ONot
	OShl
	OLShr
	OAShr
	OExtract // P0=hi P1=lo
	OConcat  // args[0] high, args[1] low
	OZExt    // to width S
	OSExt
	OIte
	OEq
	OUlt
	OUle
	OSlt
	OSle
	OBAnd // bool n-ary
	OBOr
	OBNot
	OUF     // Name, args
	OIDiv   // Int euclidean div (by const)
	OIMod   // Int mod
	OILe    // Int/Real <=
	OILt    // Int/Real <
	OBv2Int // unsigned value of BV as Int
	ORDiv   // Real division
	OAddC   // (x,y,c) width w+1: x+y+c exactly
	OSInt   // signed value of BV as Int
	OSubB   // (x,y,c) width w+1: low w bits = x-y-c mod 2^w, top bit = borrow
)

var opNames = map[Op]string{OAdd: "bvadd", OSub: "bvsub", OMul: "bvmul", OUDiv: "bvudiv", OURem: "bvurem", OSDiv: "bvsdiv", OSRem: "bvsrem",
	ONeg: "bvneg", OAnd: "bvand", OOr: "bvor", OXor: "bvxor", ONot: "bvnot", OShl: "bvshl", OLShr: "bvlshr", OAShr: "bvashr",
	OConcat: "concat", OIte: "ite", OEq: "=", OUlt: "bvult", OUle: "bvule", OSlt: "bvslt", OSle: "bvsle", OBAnd: "and", OBOr: "or", OBNot: "not",
	OIDiv: "div", OIMod: "mod", OILe: "<=", OILt: "<", ORDiv: "/"}

type Term struct {
	Op     Op
	S      Sort
	Args   []*Term
	K      *big.Int
	P0, P1 int
	Name   string
	ID     int
	maybe  *big.Int // BV: bits that may be one
	ub     *big.Int // BV: upper bound of the unsigned value
}

func (t *Term) IsConst() bool { return t.Op == OConst }
func (t *Term) W() int        { return int(t.S) }

type UFSig struct {
	Args []Sort
	Ret  Sort
}

type Builder struct {
	tab        map[string]*Term
	n          int
	Vars       []*Term
	UFs        map[string]UFSig
	fresh      int
	exDepth    int
	SignedVars map[string]bool // input variables of signed Go types (LIA declares them in the signed range)
}

func NewBuilder() *Builder {
	return &Builder{tab: map[string]*Term{}, UFs: map[string]UFSig{}, SignedVars: map[string]bool{}}
}

var bigOne = big.NewInt(1)
var bigZero = big.NewInt(0)

func pow2(n int) *big.Int  { return new(big.Int).Lsh(bigOne, uint(n)) }
func maskW(n int) *big.Int { return new(big.Int).Sub(pow2(n), bigOne) }

func (b *Builder) mk(op Op, s Sort, k *big.Int, p0, p1 int, name string, args ...*Term) *Term {
	var sb strings.Builder
	fmt.Fprintf(&sb, "%d|%d|%d|%d|%s|", op, s, p0, p1, name)
	if k != nil {
		sb.WriteString(k.Text(16))
	}
	for _, a := range args {
		fmt.Fprintf(&sb, "|%d", a.ID)
	}
	key := sb.String()
	if t, ok := b.tab[key]; ok {
		return t
	}
	b.n++
	t := &Term{Op: op, S: s, K: k, P0: p0, P1: p1, Name: name, Args: args, ID: b.n}
	b.tab[key] = t
	if op == OVar {
		b.Vars = append(b.Vars, t)
	}
	return t
}

func (b *Builder) Const(w int, v *big.Int) *Term {
	if w <= 0 {
		panic("Const: bad width")
	}
	x := new(big.Int).And(v, maskW(w)) // two's complement wrap for negatives
	if v.Sign() < 0 {
		x = new(big.Int).Mod(v, pow2(w))
	}
	return b.mk(OConst, Sort(w), x, 0, 0, "")
}
func (b *Builder) ConstU(w int, v uint64) *Term { return b.Const(w, new(big.Int).SetUint64(v)) }
func (b *Builder) ConstI(w int, v int64) *Term  { return b.Const(w, big.NewInt(v)) }
func (b *Builder) Bool(v bool) *Term {
	k := big.NewInt(0)
	if v {
		k = big.NewInt(1)
	}
	return b.mk(OConst, SBool, k, 0, 0, "")
}
func (b *Builder) IntConst(v *big.Int) *Term {
	return b.mk(OConst, SInt, new(big.Int).Set(v), 0, 0, "")
}
func (b *Builder) RealConst(v *big.Int) *Term {
	return b.mk(OConst, SReal, new(big.Int).Set(v), 0, 0, "")
}
func (b *Builder) Var(name string, s Sort) *Term {
	return b.mk(OVar, s, nil, 0, 0, name)
}
func (b *Builder) Fresh(prefix string, s Sort) *Term {
	b.fresh++
	return b.Var(fmt.Sprintf("%s!%d", prefix, b.fresh), s)
}
func (b *Builder) UF(name string, ret Sort, args ...*Term) *Term {
	sig, ok := b.UFs[name]
	if !ok {
		sig = UFSig{Ret: ret}
		for _, a := range args {
			sig.Args = append(sig.Args, a.S)
		}
		b.UFs[name] = sig
	} else {
		if sig.Ret != ret || len(sig.Args) != len(args) {
			panic("UF signature mismatch: " + name)
		}
		for i, a := range args {
			if sig.Args[i] != a.S {
				panic("UF arg sort mismatch: " + name)
			}
		}
	}
	if len(args) == 0 {
		return b.Var("uf0_"+name, ret)
	}
	return b.mk(OUF, ret, nil, 0, 0, name, args...)
}

func (t *Term) isTrue() bool  { return t.Op == OConst && t.S == SBool && t.K.Sign() != 0 }
func (t *Term) isFalse() bool { return t.Op == OConst && t.S == SBool && t.K.Sign() == 0 }
func (t *Term) isZero() bool  { return t.Op == OConst && t.K.Sign() == 0 }
func (t *Term) isOnes() bool {
	return t.Op == OConst && t.S > 0 && t.K.Cmp(maskW(int(t.S))) == 0
}

func signedVal(w int, k *big.Int) *big.Int {
	if k.Bit(w-1) == 1 {
		return new(big.Int).Sub(k, pow2(w))
	}
	return new(big.Int).Set(k)
}

// Maybe returns the mask of bits that may be one in a BV term.
func (b *Builder) Maybe(t *Term) *big.Int {
	if t.maybe != nil {
		return t.maybe
	}
	w := int(t.S)
	full := maskW(w)
	var m *big.Int
	switch t.Op {
	case OConst:
		m = t.K
	case OZExt:
		m = b.Maybe(t.Args[0])
	case OAnd:
		m = new(big.Int).And(b.Maybe(t.Args[0]), b.Maybe(t.Args[1]))
	case OOr, OXor:
		m = new(big.Int).Or(b.Maybe(t.Args[0]), b.Maybe(t.Args[1]))
	case OShl:
		if t.Args[1].IsConst() && t.Args[1].K.IsUint64() && t.Args[1].K.Uint64() < uint64(w) {
			m = new(big.Int).Lsh(b.Maybe(t.Args[0]), uint(t.Args[1].K.Uint64()))
			m.And(m, full)
		} else {
			m = full
		}
	case OLShr:
		if t.Args[1].IsConst() && t.Args[1].K.IsUint64() && t.Args[1].K.Uint64() < uint64(w) {
			m = new(big.Int).Rsh(b.Maybe(t.Args[0]), uint(t.Args[1].K.Uint64()))
		} else {
			m = b.upTo(b.Maybe(t.Args[0]))
		}
	case OExtract:
		m = new(big.Int).Rsh(b.Maybe(t.Args[0]), uint(t.P1))
		m.And(m, full)
	case OConcat:
		m = new(big.Int).Lsh(b.Maybe(t.Args[0]), uint(t.Args[1].S))
		m.Or(m, b.Maybe(t.Args[1]))
	case OIte:
		m = new(big.Int).Or(b.Maybe(t.Args[1]), b.Maybe(t.Args[2]))
	case OAdd:
		ma, mb := b.Maybe(t.Args[0]), b.Maybe(t.Args[1])
		if new(big.Int).And(ma, mb).Sign() == 0 {
			m = new(big.Int).Or(ma, mb)
		} else {
			s := new(big.Int).Add(ma, mb) // upper bound of the sum
			m = new(big.Int).And(b.upTo(s), full)
			if s.Cmp(full) > 0 {
				m = full
			}
		}
	case OMul:
		ma, mb := b.Maybe(t.Args[0]), b.Maybe(t.Args[1])
		s := new(big.Int).Mul(ma, mb)
		if s.Cmp(full) > 0 {
			m = full
		} else {
			m = b.upTo(s)
			// trailing zeros are preserved
			tz := trailingZeros(ma) + trailingZeros(mb)
			if tz > 0 {
				lowclr := new(big.Int).Lsh(new(big.Int).Rsh(m, uint(tz)), uint(tz))
				m = lowclr
			}
		}
	case OURem:
		if t.Args[1].IsConst() && t.Args[1].K.Sign() > 0 {
			m = b.upTo(new(big.Int).Sub(t.Args[1].K, bigOne))
			m.And(m, b.upTo(b.Maybe(t.Args[0])))
		} else {
			m = b.upTo(b.Maybe(t.Args[0]))
		}
	case OUDiv:
		m = b.upTo(b.Maybe(t.Args[0]))
		if t.Args[1].IsConst() && t.Args[1].K.Sign() == 0 {
			m = full
		}
	default:
		m = full
	}
	t.maybe = m
	return m
}

func trailingZeros(m *big.Int) int {
	if m.Sign() == 0 {
		return 0
	}
	return int(m.TrailingZeroBits())
}

// upTo returns 2^bitlen(m)-1
func (b *Builder) upTo(m *big.Int) *big.Int { return maskW(m.BitLen()) }

// ---------------------------------------------------------------- BV ops

func (b *Builder) checkSame(x, y *Term) {
	if x.S != y.S {
		panic(fmt.Sprintf("sort mismatch %d vs %d", x.S, y.S))
	}
}

func (b *Builder) Add(x, y *Term) *Term {
	b.checkSame(x, y)
	if x.S <= 0 {
		return b.arith(OAdd, x, y)
	}
	w := int(x.S)
	if x.IsConst() && y.IsConst() {
		return b.Const(w, new(big.Int).Add(x.K, y.K))
	}
	if x.isZero() {
		return y
	}
	if y.isZero() {
		return x
	}
	if x.IsConst() || (!y.IsConst() && x.ID > y.ID) {
		x, y = y, x
	}
	if r := b.disjointJoin(x, y); r != nil {
		return r
	}
	// (a + c1) + c2
	if y.IsConst() && x.Op == OAdd && x.Args[1].IsConst() {
		return b.Add(x.Args[0], b.Const(w, new(big.Int).Add(x.Args[1].K, y.K)))
	}
	return b.mk(OAdd, x.S, nil, 0, 0, "", x, y)
}

func (b *Builder) Sub(x, y *Term) *Term {
	b.checkSame(x, y)
	if x.S <= 0 {
		return b.arith(OSub, x, y)
	}
	w := int(x.S)
	if x.IsConst() && y.IsConst() {
		return b.Const(w, new(big.Int).Sub(x.K, y.K))
	}
	if y.isZero() {
		return x
	}
	if x == y {
		return b.ConstU(w, 0)
	}
	if x.isZero() {
		return b.Neg(y)
	}
	if y.IsConst() {
		return b.Add(x, b.Const(w, new(big.Int).Neg(y.K)))
	}
	// 1 - bit = not bit
	if x.IsConst() && x.K.Cmp(bigOne) == 0 && w > 1 && b.Maybe(y).Cmp(bigOne) <= 0 {
		return b.ZExt(b.Not(b.Extract(y, 0, 0)), w)
	}
	return b.mk(OSub, x.S, nil, 0, 0, "", x, y)
}

func (b *Builder) Neg(x *Term) *Term {
	if x.S <= 0 {
		return b.arith(OSub, b.zeroOf(x.S), x)
	}
	if x.IsConst() {
		return b.Const(int(x.S), new(big.Int).Neg(x.K))
	}
	if x.Op == ONeg {
		return x.Args[0]
	}
	return b.mk(ONeg, x.S, nil, 0, 0, "", x)
}

func (b *Builder) Mul(x, y *Term) *Term {
	b.checkSame(x, y)
	if x.S <= 0 {
		return b.arith(OMul, x, y)
	}
	w := int(x.S)
	if x.IsConst() && y.IsConst() {
		return b.Const(w, new(big.Int).Mul(x.K, y.K))
	}
	if x.isZero() || y.isZero() {
		return b.ConstU(w, 0)
	}
	if x.IsConst() && x.K.Cmp(bigOne) == 0 {
		return y
	}
	if y.IsConst() && y.K.Cmp(bigOne) == 0 {
		return x
	}
	if x.IsConst() || (!y.IsConst() && x.ID > y.ID) {
		x, y = y, x
	}
	// multiplication by a 0/1 value is a selection
	if !y.IsConst() && w > 1 {
		if b.Maybe(y).Cmp(bigOne) <= 0 {
			return b.Ite(b.Eq(b.Extract(y, 0, 0), b.ConstU(1, 1)), x, b.ConstU(w, 0))
		}
		if b.Maybe(x).Cmp(bigOne) <= 0 {
			return b.Ite(b.Eq(b.Extract(x, 0, 0), b.ConstU(1, 1)), y, b.ConstU(w, 0))
		}
	}
	return b.mk(OMul, x.S, nil, 0, 0, "", x, y)
}

func (b *Builder) divop(op Op, x, y *Term) *Term {
	b.checkSame(x, y)
	w := int(x.S)
	if x.IsConst() && y.IsConst() {
		return b.Const(w, evalBin(op, w, x.K, y.K))
	}
	if op == OUDiv && y.IsConst() && y.K.Cmp(bigOne) == 0 {
		return x
	}
	return b.mk(op, x.S, nil, 0, 0, "", x, y)
}
func (b *Builder) UDiv(x, y *Term) *Term { return b.divop(OUDiv, x, y) }
func (b *Builder) URem(x, y *Term) *Term { return b.divop(OURem, x, y) }
func (b *Builder) SDiv(x, y *Term) *Term { return b.divop(OSDiv, x, y) }
func (b *Builder) SRem(x, y *Term) *Term { return b.divop(OSRem, x, y) }

func (b *Builder) And(x, y *Term) *Term {
	b.checkSame(x, y)
	w := int(x.S)
	if x.IsConst() && y.IsConst() {
		return b.Const(w, new(big.Int).And(x.K, y.K))
	}
	if x.isZero() || y.isZero() {
		return b.ConstU(w, 0)
	}
	if x.isOnes() {
		return y
	}
	if y.isOnes() {
		return x
	}
	if x == y {
		return x
	}
	if x.IsConst() || (!y.IsConst() && x.ID > y.ID) {
		x, y = y, x
	}
	if c, ok := b.maskCond(x); ok {
		return b.Ite(c, y, b.ConstU(w, 0))
	}
	if c, ok := b.maskCond(y); ok {
		return b.Ite(c, x, b.ConstU(w, 0))
	}
	if r := b.liftIte(OAnd, x, y); r != nil {
		return r
	}
	if y.IsConst() {
		mx := b.Maybe(x)
		if new(big.Int).And(mx, y.K).Sign() == 0 {
			return b.ConstU(w, 0)
		}
		if new(big.Int).AndNot(mx, y.K).Sign() == 0 { // mask keeps every possible bit
			return x
		}
		if x.Op == OAnd && x.Args[1].IsConst() {
			return b.And(x.Args[0], b.Const(w, new(big.Int).And(x.Args[1].K, y.K)))
		}
	}
	return b.mk(OAnd, x.S, nil, 0, 0, "", x, y)
}

func (b *Builder) Or(x, y *Term) *Term {
	b.checkSame(x, y)
	w := int(x.S)
	if x.IsConst() && y.IsConst() {
		return b.Const(w, new(big.Int).Or(x.K, y.K))
	}
	if x.isZero() {
		return y
	}
	if y.isZero() {
		return x
	}
	if x.isOnes() || y.isOnes() {
		return b.Const(w, maskW(w))
	}
	if x == y {
		return x
	}
	if x.IsConst() || (!y.IsConst() && x.ID > y.ID) {
		x, y = y, x
	}
	if r := b.liftIte(OOr, x, y); r != nil {
		return r
	}
	if r := b.disjointJoin(x, y); r != nil {
		return r
	}
	return b.mk(OOr, x.S, nil, 0, 0, "", x, y)
}

// disjointJoin: if x and y have disjoint possible bits and one lies entirely
// below the other, x|y (= x+y = x^y) is a concatenation.
func (b *Builder) disjointJoin(x, y *Term) *Term {
	mx, my := b.Maybe(x), b.Maybe(y)
	if new(big.Int).And(mx, my).Sign() != 0 || mx.Sign() == 0 || my.Sign() == 0 {
		return nil
	}
	lo, hi := x, y
	if mx.Cmp(my) > 0 {
		lo, hi = y, x
	}
	k := int(b.Maybe(hi).TrailingZeroBits())
	if b.Maybe(lo).BitLen() > k || k == 0 {
		return nil
	}
	w := int(x.S)
	return b.Concat(b.Extract(hi, w-1, k), b.Extract(lo, k-1, 0))
}

func (b *Builder) Xor(x, y *Term) *Term {
	b.checkSame(x, y)
	w := int(x.S)
	if x.IsConst() && y.IsConst() {
		return b.Const(w, new(big.Int).Xor(x.K, y.K))
	}
	if x.isZero() {
		return y
	}
	if y.isZero() {
		return x
	}
	if x == y {
		return b.ConstU(w, 0)
	}
	if x.isOnes() {
		return b.Not(y)
	}
	if y.isOnes() {
		return b.Not(x)
	}
	if x.Op == OXor || y.Op == OXor {
		// AC-normalise xor chains: flatten, cancel pairs, fold constants, rebuild in id order
		var ops []*Term
		k := new(big.Int)
		var flat func(t *Term)
		flat = func(t *Term) {
			switch {
			case t.Op == OXor:
				flat(t.Args[0])
				flat(t.Args[1])
			case t.IsConst():
				k.Xor(k, t.K)
			default:
				ops = append(ops, t)
			}
		}
		flat(x)
		flat(y)
		sort.Slice(ops, func(i, j int) bool { return ops[i].ID < ops[j].ID })
		var out []*Term
		for i := 0; i < len(ops); i++ {
			if i+1 < len(ops) && ops[i] == ops[i+1] {
				i++
				continue
			}
			out = append(out, ops[i])
		}
		if len(out) == 0 {
			return b.Const(w, k)
		}
		r := out[0]
		for _, t := range out[1:] {
			r = b.mk(OXor, x.S, nil, 0, 0, "", r, t)
		}
		if k.Sign() != 0 {
			kc := b.Const(w, k)
			if kc.isOnes() {
				return b.Not(r)
			}
			r = b.mk(OXor, x.S, nil, 0, 0, "", r, kc)
		}
		return r
	}
	if x.IsConst() || (!y.IsConst() && x.ID > y.ID) {
		x, y = y, x
	}
	// (a ^ b) ^ b = a
	if x.Op == OXor {
		if x.Args[0] == y {
			return x.Args[1]
		}
		if x.Args[1] == y {
			return x.Args[0]
		}
	}
	if y.Op == OXor {
		if y.Args[0] == x {
			return y.Args[1]
		}
		if y.Args[1] == x {
			return y.Args[0]
		}
	}
	if r := b.liftIte(OXor, x, y); r != nil {
		return r
	}
	if r := b.disjointJoin(x, y); r != nil {
		return r
	}
	return b.mk(OXor, x.S, nil, 0, 0, "", x, y)
}

func (b *Builder) Not(x *Term) *Term {
	if x.IsConst() {
		return b.Const(int(x.S), new(big.Int).Xor(x.K, maskW(int(x.S))))
	}
	if x.Op == ONot {
		return x.Args[0]
	}
	return b.mk(ONot, x.S, nil, 0, 0, "", x)
}

// shift amount y has the same width as x (callers convert).
func (b *Builder) shift(op Op, x, y *Term) *Term {
	b.checkSame(x, y)
	w := int(x.S)
	if y.IsConst() {
		if y.K.Sign() == 0 {
			return x
		}
		if x.IsConst() {
			return b.Const(w, evalBin(op, w, x.K, y.K))
		}
		if y.K.Cmp(big.NewInt(int64(w))) >= 0 && op != OAShr {
			return b.ConstU(w, 0)
		}
		s := int(y.K.Int64())
		switch op {
		case OLShr:
			// (x >> s) as zext(extract)
			return b.ZExt(b.Extract(x, w-1, s), w)
		case OShl:
			// canonical: concat(extract low, zeros)
			return b.Concat(b.Extract(x, w-1-s, 0), b.ConstU(s, 0))
		}
	}
	if x.isZero() {
		return x
	}
	// shift by a term with very few possible values: case split into constant shifts
	if !y.IsConst() && b.UB(y).Cmp(big.NewInt(7)) <= 0 {
		n := int(b.UB(y).Int64())
		r := b.shift(op, x, b.ConstU(w, uint64(n)))
		for k := n - 1; k >= 0; k-- {
			r = b.Ite(b.Eq(y, b.ConstU(w, uint64(k))), b.shift(op, x, b.ConstU(w, uint64(k))), r)
		}
		return r
	}
	return b.mk(op, x.S, nil, 0, 0, "", x, y)
}
func (b *Builder) Shl(x, y *Term) *Term  { return b.shift(OShl, x, y) }
func (b *Builder) LShr(x, y *Term) *Term { return b.shift(OLShr, x, y) }
func (b *Builder) AShr(x, y *Term) *Term { return b.shift(OAShr, x, y) }

func (b *Builder) Extract(x *Term, hi, lo int) *Term {
	b.exDepth++
	defer func() { b.exDepth-- }()
	w := int(x.S)
	if hi >= w || lo < 0 || hi < lo {
		panic(fmt.Sprintf("bad extract [%d:%d] of %d", hi, lo, w))
	}
	if lo == 0 && hi == w-1 {
		return x
	}
	nw := hi - lo + 1
	switch x.Op {
	case OConst:
		return b.Const(nw, new(big.Int).Rsh(x.K, uint(lo)))
	case OExtract:
		return b.Extract(x.Args[0], x.P1+hi, x.P1+lo)
	case OZExt:
		iw := int(x.Args[0].S)
		if hi < iw {
			return b.Extract(x.Args[0], hi, lo)
		}
		if lo >= iw {
			return b.ConstU(nw, 0)
		}
		return b.ZExt(b.Extract(x.Args[0], iw-1, lo), nw)
	case OSExt:
		iw := int(x.Args[0].S)
		if hi < iw {
			return b.Extract(x.Args[0], hi, lo)
		}
	case OConcat:
		lw := int(x.Args[1].S)
		if hi < lw {
			return b.Extract(x.Args[1], hi, lo)
		}
		if lo >= lw {
			return b.Extract(x.Args[0], hi-lw, lo-lw)
		}
		return b.Concat(b.Extract(x.Args[0], hi-lw, 0), b.Extract(x.Args[1], lw-1, lo))
	case OAnd, OOr, OXor:
		// sign bit of (q | -q): the "is non-zero" idiom
		if x.Op == OOr && hi == w-1 && lo == w-1 {
			a0, a1 := x.Args[0], x.Args[1]
			if (a1.Op == ONeg && a1.Args[0] == a0) || (a0.Op == ONeg && a0.Args[0] == a1) {
				q := a0
				if a0.Op == ONeg && a0.Args[0] == a1 {
					q = a1
				}
				return b.Ite(b.Eq(q, b.ConstU(w, 0)), b.ConstU(1, 0), b.ConstU(1, 1))
			}
		}
		// push extract through bitwise ops (keeps byte-level structure small); bounded depth so that
		// deep shared DAGs (hash rounds) are not re-traversed exponentially
		if b.exDepth > 3 {
			break
		}
		a0, a1 := b.Extract(x.Args[0], hi, lo), b.Extract(x.Args[1], hi, lo)
		switch x.Op {
		case OAnd:
			return b.And(a0, a1)
		case OOr:
			return b.Or(a0, a1)
		default:
			return b.Xor(a0, a1)
		}
	case ONot:
		if b.exDepth <= 3 {
			return b.Not(b.Extract(x.Args[0], hi, lo))
		}
	case OIte:
		if x.Args[1].IsConst() || x.Args[2].IsConst() {
			return b.Ite(x.Args[0], b.Extract(x.Args[1], hi, lo), b.Extract(x.Args[2], hi, lo))
		}
	case OAdd, OSub:
		if lo == 0 && nw <= 16 && (x.Args[0].Op == OZExt || x.Args[0].IsConst()) && (x.Args[1].Op == OZExt || x.Args[1].IsConst()) {
			// low bits of modular ops depend only on low bits of operands
			ok := true
			for _, a := range x.Args {
				if a.Op == OZExt && int(a.Args[0].S) > nw {
					ok = false
				}
			}
			if ok {
				a0, a1 := b.Extract(x.Args[0], hi, 0), b.Extract(x.Args[1], hi, 0)
				switch x.Op {
				case OAdd:
					return b.Add(a0, a1)
				case OSub:
					return b.Sub(a0, a1)
				default:
					return b.Mul(a0, a1)
				}
			}
		}
	}
	return b.mk(OExtract, Sort(nw), nil, hi, lo, "", x)
}

func (b *Builder) Concat(hi, lo *Term) *Term {
	w := int(hi.S + lo.S)
	if hi.IsConst() && lo.IsConst() {
		v := new(big.Int).Lsh(hi.K, uint(lo.S))
		return b.Const(w, v.Or(v, lo.K))
	}
	if hi.isZero() {
		return b.ZExt(lo, w)
	}
	// adjacent extracts of the same term
	if hi.Op == OExtract && lo.Op == OExtract && hi.Args[0] == lo.Args[0] && hi.P1 == lo.P0+1 {
		return b.Extract(hi.Args[0], hi.P0, lo.P1)
	}
	// concat(a, concat(b, c)) with a,b adjacent extracts
	if lo.Op == OConcat && hi.Op == OExtract && lo.Args[0].Op == OExtract && hi.Args[0] == lo.Args[0].Args[0] && hi.P1 == lo.Args[0].P0+1 {
		return b.Concat(b.Extract(hi.Args[0], hi.P0, lo.Args[0].P1), lo.Args[1])
	}
	// concat(zext(a), b) = zext(concat(a,b))
	if hi.Op == OZExt {
		return b.ZExt(b.Concat(hi.Args[0], lo), w)
	}
	return b.mk(OConcat, Sort(w), nil, 0, 0, "", hi, lo)
}

func (b *Builder) ZExt(x *Term, w int) *Term {
	if int(x.S) == w {
		return x
	}
	if int(x.S) > w {
		panic("zext to smaller width")
	}
	if x.IsConst() {
		return b.Const(w, x.K)
	}
	if x.Op == OZExt {
		return b.ZExt(x.Args[0], w)
	}
	return b.mk(OZExt, Sort(w), nil, 0, 0, "", x)
}

func (b *Builder) SExt(x *Term, w int) *Term {
	if int(x.S) == w {
		return x
	}
	if x.IsConst() {
		return b.Const(w, signedVal(int(x.S), x.K))
	}
	if x.Op == OZExt { // sign bit is zero
		return b.ZExt(x.Args[0], w)
	}
	if b.Maybe(x).Bit(int(x.S)-1) == 0 {
		return b.ZExt(x, w)
	}
	return b.mk(OSExt, Sort(w), nil, 0, 0, "", x)
}

// Trunc/resize helpers
func (b *Builder) Trunc(x *Term, w int) *Term { return b.Extract(x, w-1, 0) }

func (b *Builder) Ite(c, x, y *Term) *Term {
	if c.S != SBool {
		panic("ite cond not bool")
	}
	b.checkSame(x, y)
	if c.isTrue() {
		return x
	}
	if c.isFalse() {
		return y
	}
	if x == y {
		return x
	}
	if x.S == SBool {
		if x.isTrue() && y.isFalse() {
			return c
		}
		if x.isFalse() && y.isTrue() {
			return b.BNot(c)
		}
		if x.isTrue() {
			return b.BOr(c, y)
		}
		if x.isFalse() {
			return b.BAnd(b.BNot(c), y)
		}
		if y.isTrue() {
			return b.BOr(b.BNot(c), x)
		}
		if y.isFalse() {
			return b.BAnd(c, x)
		}
	}
	if c.Op == OBNot {
		return b.Ite(c.Args[0], y, x)
	}
	// ite(c, ite(c, a, b), d) = ite(c, a, d)
	if x.Op == OIte && x.Args[0] == c {
		return b.Ite(c, x.Args[1], y)
	}
	if y.Op == OIte && y.Args[0] == c {
		return b.Ite(c, x, y.Args[2])
	}
	return b.mk(OIte, x.S, nil, 0, 0, "", c, x, y)
}

func (b *Builder) Eq(x, y *Term) *Term {
	b.checkSame(x, y)
	if x == y {
		return b.Bool(true)
	}
	if x.IsConst() && y.IsConst() {
		return b.Bool(x.K.Cmp(y.K) == 0)
	}
	if x.S == SBool {
		if x.IsConst() {
			x, y = y, x
		}
		if y.isTrue() {
			return x
		}
		if y.isFalse() {
			return b.BNot(x)
		}
	}
	if x.S > 0 {
		if x.IsConst() {
			x, y = y, x
		}
		if y.IsConst() {
			// impossible value
			if new(big.Int).AndNot(y.K, b.Maybe(x)).Sign() != 0 {
				return b.Bool(false)
			}
			// (a | b) == 0  <=>  a == 0 and b == 0
			if x.Op == OOr && y.K.Sign() == 0 {
				return b.BAnd(b.Eq(x.Args[0], y), b.Eq(x.Args[1], y))
			}
			if x.Op == OConcat && y.K.Sign() == 0 {
				return b.BAnd(b.Eq(x.Args[0], b.ConstU(int(x.Args[0].S), 0)), b.Eq(x.Args[1], b.ConstU(int(x.Args[1].S), 0)))
			}
			if x.Op == OZExt {
				return b.Eq(x.Args[0], b.Const(int(x.Args[0].S), y.K))
			}
			// ite(c, k1, k2) == k
			if x.Op == OIte && x.Args[1].IsConst() && x.Args[2].IsConst() {
				e1 := x.Args[1].K.Cmp(y.K) == 0
				e2 := x.Args[2].K.Cmp(y.K) == 0
				switch {
				case e1 && e2:
					return b.Bool(true)
				case e1:
					return x.Args[0]
				case e2:
					return b.BNot(x.Args[0])
				default:
					return b.Bool(false)
				}
			}
			// x ^ k1 == k2
			if x.Op == OXor && x.Args[1].IsConst() {
				return b.Eq(x.Args[0], b.Const(int(x.S), new(big.Int).Xor(x.Args[1].K, y.K)))
			}
		}
		if x.Op == OZExt && y.Op == OZExt && x.Args[0].S == y.Args[0].S {
			return b.Eq(x.Args[0], y.Args[0])
		}
	}
	if x.ID > y.ID {
		x, y = y, x
	}
	return b.mk(OEq, SBool, nil, 0, 0, "", x, y)
}

func (b *Builder) cmp(op Op, x, y *Term) *Term {
	b.checkSame(x, y)
	w := int(x.S)
	if x.S <= 0 {
		panic("cmp on non-bv")
	}
	if x.IsConst() && y.IsConst() {
		var r bool
		switch op {
		case OUlt:
			r = x.K.Cmp(y.K) < 0
		case OUle:
			r = x.K.Cmp(y.K) <= 0
		case OSlt:
			r = signedVal(w, x.K).Cmp(signedVal(w, y.K)) < 0
		case OSle:
			r = signedVal(w, x.K).Cmp(signedVal(w, y.K)) <= 0
		}
		return b.Bool(r)
	}
	if x == y {
		return b.Bool(op == OUle || op == OSle)
	}
	switch op {
	case OUlt:
		if y.isZero() {
			return b.Bool(false)
		}
		if y.IsConst() && b.Maybe(x).Cmp(y.K) < 0 {
			return b.Bool(true)
		}
		if x.isZero() {
			return b.BNot(b.Eq(y, x))
		}
	case OUle:
		if x.isZero() {
			return b.Bool(true)
		}
		if y.IsConst() && b.Maybe(x).Cmp(y.K) <= 0 {
			return b.Bool(true)
		}
	}
	if (op == OUlt || op == OUle) && x.Op == OZExt && y.Op == OZExt && x.Args[0].S == y.Args[0].S {
		return b.cmp(op, x.Args[0], y.Args[0])
	}
	// signed compare where both sign bits are known zero = unsigned
	if (op == OSlt || op == OSle) && b.Maybe(x).Bit(w-1) == 0 && b.Maybe(y).Bit(w-1) == 0 {
		if op == OSlt {
			return b.cmp(OUlt, x, y)
		}
		return b.cmp(OUle, x, y)
	}
	return b.mk(op, SBool, nil, 0, 0, "", x, y)
}
func (b *Builder) Ult(x, y *Term) *Term { return b.cmp(OUlt, x, y) }
func (b *Builder) Ule(x, y *Term) *Term { return b.cmp(OUle, x, y) }
func (b *Builder) Slt(x, y *Term) *Term { return b.cmp(OSlt, x, y) }
func (b *Builder) Sle(x, y *Term) *Term { return b.cmp(OSle, x, y) }

func (b *Builder) BNot(x *Term) *Term {
	if x.S != SBool {
		panic("BNot on non-bool")
	}
	if x.IsConst() {
		return b.Bool(x.K.Sign() == 0)
	}
	if x.Op == OBNot {
		return x.Args[0]
	}
	return b.mk(OBNot, SBool, nil, 0, 0, "", x)
}

func (b *Builder) nary(op Op, xs []*Term) *Term {
	unit := op == OBAnd // true is unit of and
	var out []*Term
	seen := map[int]bool{}
	var add func(t *Term) bool
	add = func(t *Term) bool {
		if t.S != SBool {
			panic("bool op on non-bool")
		}
		if t.IsConst() {
			if t.isTrue() == unit {
				return true
			}
			return false // absorbing
		}
		if t.Op == op {
			for _, a := range t.Args {
				if !add(a) {
					return false
				}
			}
			return true
		}
		if !seen[t.ID] {
			seen[t.ID] = true
			out = append(out, t)
		}
		return true
	}
	for _, x := range xs {
		if !add(x) {
			return b.Bool(!unit)
		}
	}
	for _, t := range out {
		if t.Op == OBNot && seen[t.Args[0].ID] {
			return b.Bool(!unit)
		}
	}
	if len(out) == 0 {
		return b.Bool(unit)
	}
	if len(out) == 1 {
		return out[0]
	}
	sort.Slice(out, func(i, j int) bool { return out[i].ID < out[j].ID })
	return b.mk(op, SBool, nil, 0, 0, "", out...)
}
func (b *Builder) BAnd(xs ...*Term) *Term { return b.nary(OBAnd, xs) }
func (b *Builder) BOr(xs ...*Term) *Term  { return b.nary(OBOr, xs) }
func (b *Builder) Implies(x, y *Term) *Term {
	return b.BOr(b.BNot(x), y)
}

// ---------------------------------------------------------------- Int / Real ops

func (b *Builder) zeroOf(s Sort) *Term {
	if s == SInt {
		return b.IntConst(big.NewInt(0))
	}
	return b.RealConst(big.NewInt(0))
}

func (b *Builder) arith(op Op, x, y *Term) *Term {
	if x.IsConst() && y.IsConst() {
		var r *big.Int
		switch op {
		case OAdd:
			r = new(big.Int).Add(x.K, y.K)
		case OSub:
			r = new(big.Int).Sub(x.K, y.K)
		case OMul:
			r = new(big.Int).Mul(x.K, y.K)
		}
		return b.mk(OConst, x.S, r, 0, 0, "")
	}
	switch op {
	case OAdd:
		if x.isZero() {
			return y
		}
		if y.isZero() {
			return x
		}
	case OSub:
		if y.isZero() {
			return x
		}
		if x == y {
			return b.zeroOf(x.S)
		}
	case OMul:
		if x.isZero() || y.isZero() {
			return b.zeroOf(x.S)
		}
		if x.IsConst() && x.K.Cmp(bigOne) == 0 {
			return y
		}
		if y.IsConst() && y.K.Cmp(bigOne) == 0 {
			return x
		}
	}
	if (op == OAdd || op == OMul) && x.ID > y.ID {
		x, y = y, x
	}
	return b.mk(op, x.S, nil, 0, 0, "", x, y)
}

func (b *Builder) IMod(x, m *Term) *Term {
	if x.IsConst() && m.IsConst() && m.K.Sign() > 0 {
		return b.IntConst(new(big.Int).Mod(x.K, m.K))
	}
	return b.mk(OIMod, SInt, nil, 0, 0, "", x, m)
}
func (b *Builder) IDiv(x, m *Term) *Term {
	if x.IsConst() && m.IsConst() && m.K.Sign() > 0 {
		q, r := new(big.Int).DivMod(x.K, m.K, new(big.Int))
		_ = r
		return b.IntConst(q)
	}
	return b.mk(OIDiv, SInt, nil, 0, 0, "", x, m)
}
func (b *Builder) RDiv(x, y *Term) *Term { return b.mk(ORDiv, SReal, nil, 0, 0, "", x, y) }
func (b *Builder) ILe(x, y *Term) *Term {
	b.checkSame(x, y)
	if x.IsConst() && y.IsConst() {
		return b.Bool(x.K.Cmp(y.K) <= 0)
	}
	return b.mk(OILe, SBool, nil, 0, 0, "", x, y)
}
func (b *Builder) ILt(x, y *Term) *Term {
	b.checkSame(x, y)
	if x.IsConst() && y.IsConst() {
		return b.Bool(x.K.Cmp(y.K) < 0)
	}
	return b.mk(OILt, SBool, nil, 0, 0, "", x, y)
}
func (b *Builder) SInt(x *Term) *Term {
	if x.IsConst() {
		return b.IntConst(signedVal(int(x.S), x.K))
	}
	for x.Op == OSExt {
		x = x.Args[0]
	}
	if x.Op == OZExt || b.Maybe(x).Bit(int(x.S)-1) == 0 {
		return b.Bv2Int(x)
	}
	return b.mk(OSInt, SInt, nil, 0, 0, "", x)
}

func (b *Builder) Bv2Int(x *Term) *Term {
	if x.IsConst() {
		return b.IntConst(x.K)
	}
	return b.mk(OBv2Int, SInt, nil, 0, 0, "", x)
}

// ---------------------------------------------------------------- evaluation

func evalBin(op Op, w int, x, y *big.Int) *big.Int {
	m := pow2(w)
	r := new(big.Int)
	switch op {
	case OUDiv:
		if y.Sign() == 0 {
			return maskW(w)
		}
		r.Div(x, y)
	case OURem:
		if y.Sign() == 0 {
			return new(big.Int).Set(x)
		}
		r.Mod(x, y)
	case OSDiv:
		sx, sy := signedVal(w, x), signedVal(w, y)
		if sy.Sign() == 0 {
			if sx.Sign() < 0 {
				return big.NewInt(1)
			}
			return maskW(w)
		}
		r.Quo(sx, sy)
	case OSRem:
		sx, sy := signedVal(w, x), signedVal(w, y)
		if sy.Sign() == 0 {
			return new(big.Int).Set(x)
		}
		r.Rem(sx, sy)
	case OShl:
		if y.Cmp(big.NewInt(int64(w))) >= 0 {
			return big.NewInt(0)
		}
		r.Lsh(x, uint(y.Int64()))
	case OLShr:
		if y.Cmp(big.NewInt(int64(w))) >= 0 {
			return big.NewInt(0)
		}
		r.Rsh(x, uint(y.Int64()))
	case OAShr:
		sx := signedVal(w, x)
		s := uint(w)
		if y.Cmp(big.NewInt(int64(w))) < 0 {
			s = uint(y.Int64())
		}
		r.Rsh(sx, s)
	default:
		panic("evalBin")
	}
	return r.Mod(r, m)
}

// Eval evaluates t under env (variable name -> value; BV unsigned, Bool 0/1, Int).
// UFs are looked up through uf (may be nil -> error).
func (b *Builder) Eval(t *Term, env map[string]*big.Int, memo map[int]*big.Int) *big.Int {
	if v, ok := memo[t.ID]; ok {
		return v
	}
	a := make([]*big.Int, len(t.Args))
	if t.Op != OIte {
		for i, x := range t.Args {
			a[i] = b.Eval(x, env, memo)
		}
	}
	w := int(t.S)
	bool2 := func(v bool) *big.Int {
		if v {
			return big.NewInt(1)
		}
		return big.NewInt(0)
	}
	wrap := func(v *big.Int) *big.Int {
		if t.S > 0 {
			return v.Mod(v, pow2(w))
		}
		return v
	}
	var r *big.Int
	switch t.Op {
	case OConst:
		r = t.K
	case OVar:
		v, ok := env[t.Name]
		if !ok {
			v = big.NewInt(0)
		}
		r = v
	case OAdd:
		r = wrap(new(big.Int).Add(a[0], a[1]))
	case OSub:
		r = wrap(new(big.Int).Sub(a[0], a[1]))
	case OMul:
		r = wrap(new(big.Int).Mul(a[0], a[1]))
	case ONeg:
		r = wrap(new(big.Int).Neg(a[0]))
	case OUDiv, OURem, OSDiv, OSRem, OShl, OLShr, OAShr:
		r = evalBin(t.Op, w, a[0], a[1])
	case OAnd:
		r = new(big.Int).And(a[0], a[1])
	case OOr:
		r = new(big.Int).Or(a[0], a[1])
	case OXor:
		r = new(big.Int).Xor(a[0], a[1])
	case ONot:
		r = new(big.Int).Xor(a[0], maskW(w))
	case OExtract:
		r = new(big.Int).Rsh(a[0], uint(t.P1))
		r.And(r, maskW(w))
	case OConcat:
		r = new(big.Int).Lsh(a[0], uint(t.Args[1].S))
		r.Or(r, a[1])
	case OZExt:
		r = a[0]
	case OSExt:
		r = wrap(signedVal(int(t.Args[0].S), a[0]))
	case OIte:
		if b.Eval(t.Args[0], env, memo).Sign() != 0 {
			r = b.Eval(t.Args[1], env, memo)
		} else {
			r = b.Eval(t.Args[2], env, memo)
		}
	case OEq:
		r = bool2(a[0].Cmp(a[1]) == 0)
	case OUlt, OILt:
		r = bool2(a[0].Cmp(a[1]) < 0)
	case OUle, OILe:
		r = bool2(a[0].Cmp(a[1]) <= 0)
	case OSlt:
		sw := int(t.Args[0].S)
		r = bool2(signedVal(sw, a[0]).Cmp(signedVal(sw, a[1])) < 0)
	case OSle:
		sw := int(t.Args[0].S)
		r = bool2(signedVal(sw, a[0]).Cmp(signedVal(sw, a[1])) <= 0)
	case OBAnd:
		r = big.NewInt(1)
		for _, x := range a {
			if x.Sign() == 0 {
				r = big.NewInt(0)
			}
		}
	case OBOr:
		r = big.NewInt(0)
		for _, x := range a {
			if x.Sign() != 0 {
				r = big.NewInt(1)
			}
		}
	case OBNot:
		r = bool2(a[0].Sign() == 0)
	case OAddC:
		r = new(big.Int).Add(a[0], a[1])
		r.Add(r, a[2])
		r = wrap(r)
	case OSubB:
		r = new(big.Int).Sub(a[0], a[1])
		r.Sub(r, a[2])
		r = wrap(r)
	case OIMod:
		r = new(big.Int).Mod(a[0], a[1])
	case OIDiv:
		r = new(big.Int).Div(a[0], a[1])
	case OBv2Int:
		r = a[0]
	case OSInt:
		r = signedVal(int(t.Args[0].S), a[0])
	default:
		panic(fmt.Sprintf("Eval: unsupported op %d", t.Op))
	}
	memo[t.ID] = r
	return r
}

// maskCond recognises terms that are all-ones when cond holds and zero otherwise.
func (b *Builder) maskCond(t *Term) (*Term, bool) {
	w := int(t.S)
	if w <= 1 {
		return nil, false
	}
	switch t.Op {
	case ONeg:
		x := t.Args[0]
		if b.Maybe(x).Cmp(bigOne) <= 0 {
			return b.Eq(b.Extract(x, 0, 0), b.ConstU(1, 1)), true
		}
	case OSExt:
		if int(t.Args[0].S) == 1 {
			return b.Eq(t.Args[0], b.ConstU(1, 1)), true
		}
	case OIte:
		if t.Args[1].isOnes() && t.Args[2].isZero() {
			return t.Args[0], true
		}
		if t.Args[2].isOnes() && t.Args[1].isZero() {
			return b.BNot(t.Args[0]), true
		}
	case ONot:
		if c, ok := b.maskCond(t.Args[0]); ok {
			return b.BNot(c), true
		}
	case OAShr:
		if t.Args[1].IsConst() && t.Args[1].K.Cmp(big.NewInt(int64(w-1))) >= 0 {
			return b.Eq(b.Extract(t.Args[0], w-1, w-1), b.ConstU(1, 1)), true
		}
	}
	return nil, false
}

// liftIte: op(Ite(c,a,b), Ite(c,d,e)) -> Ite(c, op(a,d), op(b,e)); op(x, Ite(c,a,k)) with k in {0, ones}.
func (b *Builder) liftIte(op Op, x, y *Term) *Term {
	ap := func(p, q *Term) *Term {
		switch op {
		case OAnd:
			return b.And(p, q)
		case OOr:
			return b.Or(p, q)
		case OXor:
			return b.Xor(p, q)
		case OAdd:
			return b.Add(p, q)
		}
		panic("liftIte")
	}
	if x.Op == OIte && y.Op == OIte && x.Args[0] == y.Args[0] {
		return b.Ite(x.Args[0], ap(x.Args[1], y.Args[1]), ap(x.Args[2], y.Args[2]))
	}
	if x.Op == OIte && y.Op == OIte && x.Args[0].Op == OBNot && x.Args[0].Args[0] == y.Args[0] {
		return b.Ite(y.Args[0], ap(x.Args[2], y.Args[1]), ap(x.Args[1], y.Args[2]))
	}
	if x.Op == OIte && y.Op == OIte && y.Args[0].Op == OBNot && y.Args[0].Args[0] == x.Args[0] {
		return b.Ite(x.Args[0], ap(x.Args[1], y.Args[2]), ap(x.Args[2], y.Args[1]))
	}
	triv := func(t *Term) bool { return t.isZero() || t.isOnes() }
	if y.Op == OIte && (triv(y.Args[1]) || triv(y.Args[2])) && !x.IsConst() && x.Op != OIte {
		return b.Ite(y.Args[0], ap(x, y.Args[1]), ap(x, y.Args[2]))
	}
	if x.Op == OIte && (triv(x.Args[1]) || triv(x.Args[2])) && !y.IsConst() && y.Op != OIte {
		return b.Ite(x.Args[0], ap(x.Args[1], y), ap(x.Args[2], y))
	}
	return nil
}

func (b *Builder) AddC(x, y, c *Term) *Term {
	w := int(x.S)
	if x.IsConst() && y.IsConst() && c.IsConst() {
		v := new(big.Int).Add(x.K, y.K)
		return b.Const(w+1, v.Add(v, c.K))
	}
	if y.isZero() && c.isZero() {
		return b.ZExt(x, w+1)
	}
	if x.isZero() && c.isZero() {
		return b.ZExt(y, w+1)
	}
	if !x.IsConst() && !y.IsConst() && x.ID > y.ID {
		x, y = y, x
	}
	return b.mk(OAddC, Sort(w+1), nil, 0, 0, "", x, y, c)
}

func (b *Builder) SubB(x, y, c *Term) *Term {
	w := int(x.S)
	if x.IsConst() && y.IsConst() && c.IsConst() {
		v := new(big.Int).Sub(x.K, y.K)
		v.Sub(v, c.K)
		return b.Const(w+1, v) // two's complement wrap puts the borrow in bit w
	}
	if y.isZero() && c.isZero() {
		return b.ZExt(x, w+1)
	}
	return b.mk(OSubB, Sort(w+1), nil, 0, 0, "", x, y, c)
}

// UB returns an upper bound of the unsigned value of a BV term (never above Maybe).
func (b *Builder) UB(t *Term) *big.Int {
	if t.ub != nil {
		return t.ub
	}
	w := int(t.S)
	full := maskW(w)
	m := b.Maybe(t)
	var u *big.Int
	min := func(x, y *big.Int) *big.Int {
		if x.Cmp(y) < 0 {
			return x
		}
		return y
	}
	switch t.Op {
	case OConst:
		u = t.K
	case OZExt:
		u = b.UB(t.Args[0])
	case OAdd:
		u = new(big.Int).Add(b.UB(t.Args[0]), b.UB(t.Args[1]))
		if u.Cmp(full) > 0 {
			u = full
		}
	case OAddC:
		u = new(big.Int).Add(b.UB(t.Args[0]), b.UB(t.Args[1]))
		u.Add(u, b.UB(t.Args[2]))
		if u.Cmp(full) > 0 {
			u = full
		}
	case OMul:
		u = new(big.Int).Mul(b.UB(t.Args[0]), b.UB(t.Args[1]))
		if u.Cmp(full) > 0 {
			u = full
		}
	case OExtract:
		ua := b.UB(t.Args[0])
		if ua.BitLen() <= t.P0+1 {
			u = new(big.Int).Rsh(ua, uint(t.P1))
		}
	case OConcat:
		u = new(big.Int).Lsh(b.UB(t.Args[0]), uint(t.Args[1].S))
		u.Add(u, b.UB(t.Args[1]))
	case OIte:
		u = b.UB(t.Args[1])
		if b.UB(t.Args[2]).Cmp(u) > 0 {
			u = b.UB(t.Args[2])
		}
	case OAnd:
		u = min(b.UB(t.Args[0]), b.UB(t.Args[1]))
	case OURem:
		if t.Args[1].IsConst() && t.Args[1].K.Sign() > 0 {
			u = min(new(big.Int).Sub(t.Args[1].K, bigOne), b.UB(t.Args[0]))
		}
	case OUDiv:
		if t.Args[1].IsConst() && t.Args[1].K.Sign() > 0 {
			u = new(big.Int).Div(b.UB(t.Args[0]), t.Args[1].K)
		}
	}
	if u == nil || u.Cmp(m) > 0 {
		u = m
	}
	t.ub = u
	return u
}

// Subst rebuilds t with variables replaced by constants (env: var name -> value), re-simplifying.
func (b *Builder) Subst(t *Term, env map[string]*big.Int, memo map[int]*Term) *Term {
	if r, ok := memo[t.ID]; ok {
		return r
	}
	var r *Term
	switch t.Op {
	case OConst:
		r = t
	case OVar:
		if v, ok := env[t.Name]; ok {
			switch {
			case t.S > 0:
				r = b.Const(int(t.S), v)
			case t.S == SBool:
				r = b.Bool(v.Sign() != 0)
			case t.S == SInt:
				r = b.IntConst(v)
			default:
				r = b.RealConst(v)
			}
		} else {
			r = t
		}
	default:
		a := make([]*Term, len(t.Args))
		same := true
		for i, x := range t.Args {
			a[i] = b.Subst(x, env, memo)
			if a[i] != x {
				same = false
			}
		}
		if same {
			r = t
		} else {
			r = b.rebuild(t, a)
		}
	}
	memo[t.ID] = r
	return r
}

func (b *Builder) rebuild(t *Term, a []*Term) *Term {
	switch t.Op {
	case OAdd:
		return b.Add(a[0], a[1])
	case OSub:
		return b.Sub(a[0], a[1])
	case OMul:
		return b.Mul(a[0], a[1])
	case OUDiv:
		return b.UDiv(a[0], a[1])
	case OURem:
		return b.URem(a[0], a[1])
	case OSDiv:
		return b.SDiv(a[0], a[1])
	case OSRem:
		return b.SRem(a[0], a[1])
	case ONeg:
		return b.Neg(a[0])
	case OAnd:
		return b.And(a[0], a[1])
	case OOr:
		return b.Or(a[0], a[1])
	case OXor:
		return b.Xor(a[0], a[1])
	case ONot:
		return b.Not(a[0])
	case OShl:
		return b.Shl(a[0], a[1])
	case OLShr:
		return b.LShr(a[0], a[1])
	case OAShr:
		return b.AShr(a[0], a[1])
	case OExtract:
		return b.Extract(a[0], t.P0, t.P1)
	case OConcat:
		return b.Concat(a[0], a[1])
	case OZExt:
		return b.ZExt(a[0], int(t.S))
	case OSExt:
		return b.SExt(a[0], int(t.S))
	case OIte:
		return b.Ite(a[0], a[1], a[2])
	case OEq:
		return b.Eq(a[0], a[1])
	case OUlt:
		return b.Ult(a[0], a[1])
	case OUle:
		return b.Ule(a[0], a[1])
	case OSlt:
		return b.Slt(a[0], a[1])
	case OSle:
		return b.Sle(a[0], a[1])
	case OBAnd:
		return b.BAnd(a...)
	case OBOr:
		return b.BOr(a...)
	case OBNot:
		return b.BNot(a[0])
	case OUF:
		return b.UF(t.Name, t.S, a...)
	case OIDiv:
		return b.IDiv(a[0], a[1])
	case OIMod:
		return b.IMod(a[0], a[1])
	case OILe:
		return b.ILe(a[0], a[1])
	case OILt:
		return b.ILt(a[0], a[1])
	case OBv2Int:
		return b.Bv2Int(a[0])
	case OSInt:
		return b.SInt(a[0])
	case ORDiv:
		return b.RDiv(a[0], a[1])
	case OAddC:
		return b.AddC(a[0], a[1], a[2])
	case OSubB:
		return b.SubB(a[0], a[1], a[2])
	}
	panic(fmt.Sprintf("rebuild: op %d", t.Op))
}

// symProducts lists BV multiplications of two non-constant operands below the given roots.
func symProducts(roots []*Term) []*Term {
	seen := map[int]bool{}
	var out []*Term
	var walk func(t *Term)
	walk = func(t *Term) {
		if seen[t.ID] {
			return
		}
		seen[t.ID] = true
		if t.Op == OMul && t.S > 0 && !t.Args[0].IsConst() && !t.Args[1].IsConst() {
			out = append(out, t)
		}
		for _, a := range t.Args {
			walk(a)
		}
	}
	for _, r := range roots {
		walk(r)
	}
	return out
}

func termVars(t *Term, seen map[int]bool, out map[string]*Term) {
	if seen[t.ID] {
		return
	}
	seen[t.ID] = true
	if t.Op == OVar {
		out[t.Name] = t
	}
	for _, a := range t.Args {
		termVars(a, seen, out)
	}
}
