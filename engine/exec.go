package main

// Symbolic executor over go/ssa.

import (
	"fmt"
	"go/constant"
	"go/token"
	"go/types"
	"math"
	"math/big"
	"os"
	"strings"

	"golang.org/x/tools/go/ssa"
)

type pathEnd struct {
	kind string // "panic" | "unsupported" | "internal" | "infeasible" | "stop" | "limit"
	msg  string
	pos  string
}

type deferred struct {
	fn   Value
	args []Value
	call *ssa.CallCommon
}

type frame struct {
	fn     *ssa.Function
	env    map[ssa.Value]Value
	defers []deferred
	caller *frame
	// recover support
	panicking *pathEnd
}

type Exec struct {
	b         *Builder
	prog      *ssa.Program
	run       *HarnessRun
	globals   map[*ssa.Global]*Cell
	initDone  map[*ssa.Package]bool
	depth     int
	steps     int64
	curFrame  *frame
	panicFr   *frame
	curPos    token.Pos
	curFn     *ssa.Function
	opaqueN   int
	initOrder []*ssa.Package
	cellN     int
	spec      int // >0 while speculatively executing both arms of a diamond
	transcr   map[string]*big.Int
	il        *ilState
}

func (e *Exec) posStr() string {
	if e.curPos.IsValid() {
		p := e.prog.Fset.Position(e.curPos)
		return fmt.Sprintf("%s:%d", strings.TrimPrefix(p.Filename, "/repo/"), p.Line)
	}
	if e.curFn != nil {
		return e.curFn.String()
	}
	return "?"
}

func (e *Exec) throw(kind, f string, a ...interface{}) {
	panic(&pathEnd{kind: kind, msg: fmt.Sprintf(f, a...), pos: e.posStr()})
}
func (e *Exec) unsupported(f string, a ...interface{}) { e.throw("unsupported", f, a...) }
func (e *Exec) internal(f string, a ...interface{})    { e.throw("internal", f, a...) }

// goPanic: a Go-level panic on the current path (runtime error or explicit panic).
func (e *Exec) goPanic(f string, a ...interface{}) {
	e.throw("panic", f, a...)
}

// ---------------------------------------------------------------- values of SSA operands

func (e *Exec) constValue(c *ssa.Const) Value {
	t := c.Type()
	if c.Value == nil {
		return e.zero(t)
	}
	if w, _, ok := intWidth(t); ok {
		v, _ := new(big.Int).SetString(c.Value.ExactString(), 10)
		if v == nil {
			// may be a float constant representable as int
			i, _ := constant.Int64Val(constant.ToInt(c.Value))
			v = big.NewInt(i)
		}
		return e.b.Const(w, v)
	}
	switch {
	case isBool(t):
		return e.b.Bool(constant.BoolVal(c.Value))
	case isString(t):
		return e.strConst(constant.StringVal(c.Value))
	case isFloat(t):
		f, _ := constant.Float64Val(c.Value)
		return f
	}
	e.unsupported("constant of type %s", t)
	return nil
}

func (e *Exec) get(fr *frame, v ssa.Value) Value {
	switch x := v.(type) {
	case *ssa.Const:
		return e.constValue(x)
	case *ssa.Global:
		return ptrTo(e.globalCell(x), e.b)
	case *ssa.Function:
		return &FuncV{fn: x}
	case *ssa.Builtin:
		return &FuncV{builtin: x.Name()}
	}
	r, ok := fr.env[v]
	if !ok {
		e.internal("no value for %s (%T) in %s", v.Name(), v, fr.fn)
	}
	return r
}

func (e *Exec) globalCell(g *ssa.Global) *Cell {
	if c, ok := e.globals[g]; ok {
		return c
	}
	// run package init lazily
	if g.Pkg != nil && e.initAllowed(g.Pkg) && !e.initDone[g.Pkg] {
		e.runInit(g.Pkg)
		if c, ok := e.globals[g]; ok {
			return c
		}
	}
	c := e.newCell(g.Type().(*types.Pointer).Elem())
	e.globals[g] = c
	e.modelGlobal(g, c)
	return c
}

var initDeny = []string{"runtime", "internal/", "os", "syscall", "sync", "reflect", "time", "io/fs", "net", "unsafe", "testing", "flag", "log",
	"math/rand", "crypto/rand", "crypto/internal/", "vendor/", "golang.org/x/sys", "unicode", "fmt", "path", "bufio", "context", "sort", "strings", "bytes",
	"encoding/json", "encoding/base64", "encoding/hex", "encoding/pem", "encoding/asn1", "crypto/x509", "crypto/tls", "crypto/elliptic",
	"crypto/ecdsa", "crypto/ecdh", "crypto/ed25519", "crypto/aes", "crypto/cipher", "crypto/des", "crypto/dsa", "hash/", "compress/", "iter", "slices", "maps", "cmp", "errors", "io", "strconv", "math", "math/bits", "encoding/binary", "crypto/subtle", "embed"}

func (e *Exec) initAllowed(p *ssa.Package) bool {
	if e.isOwnPkg(p) {
		return true
	}
	path := p.Pkg.Path()
	if path == "math/big" || path == "crypto/rsa" || path == "crypto/elliptic" || path == "encoding/pem" {
		return true
	}
	for _, d := range initDeny {
		if path == d || (strings.HasSuffix(d, "/") && strings.HasPrefix(path, d)) || strings.HasPrefix(path, d+"/") {
			return false
		}
	}
	return true
}

func (e *Exec) isOwnPkg(p *ssa.Package) bool {
	return strings.HasPrefix(p.Pkg.Path(), "github.com/cloudflare/circl")
}

func (e *Exec) runInit(p *ssa.Package) {
	if e.initDone[p] {
		return
	}
	e.initDone[p] = true
	e.initOrder = append(e.initOrder, p)
	// allocate all globals first
	for _, m := range p.Members {
		if g, ok := m.(*ssa.Global); ok {
			if _, ok := e.globals[g]; !ok {
				c := e.newCell(g.Type().(*types.Pointer).Elem())
				e.globals[g] = c
				e.modelGlobal(g, c)
			}
		}
	}
	init := p.Func("init")
	if init == nil {
		return
	}
	saveRun := e.run.inInit
	e.run.inInit = true
	savePos, saveFn := e.curPos, e.curFn
	e.callFunction(init, nil, nil)
	e.curPos, e.curFn = savePos, saveFn
	e.run.inInit = saveRun
}

// ---------------------------------------------------------------- function calls

const maxDepth = 400

var traceCalls = os.Getenv("GOSMT_TRACE") != ""

func (e *Exec) callFunction(fn *ssa.Function, args []Value, bind []Value) Value {
	if len(e.run.stubFns) > 0 && !e.run.inInit {
		key := strings.ReplaceAll(fn.String(), modPath+"/", "")
		if sf, ok := e.run.stubFns[key]; ok && e.curFn != sf {
			e.run.stubs["replace:"+key] = true
			return e.callFunction(sf, args, nil)
		}
	}
	if r, ok := e.intrinsic(fn, args); ok {
		return r
	}
	if fn.Blocks == nil {
		e.unsupported("call of function without body: %s", fn.String())
	}
	if fn.Name() == "init" && fn.Pkg != nil && fn.Synthetic == "package initializer" {
		if !e.initAllowed(fn.Pkg) {
			return nil
		}
		if !e.initDone[fn.Pkg] {
			e.initDone[fn.Pkg] = true
			e.initOrder = append(e.initOrder, fn.Pkg)
		}
	}
	if fn.Pkg != nil && e.isOwnPkg(fn.Pkg) && !strings.HasPrefix(fn.Name(), "ZZ_") && !strings.HasPrefix(fn.Name(), "zz") && !e.run.inInit {
		e.run.funcs[fn.String()] = true
	}
	if traceCalls {
		fmt.Fprintf(os.Stderr, "%*s%s steps=%d\n", e.depth, "", fn.String(), e.steps)
	}
	e.depth++
	if e.depth > maxDepth {
		e.throw("limit", "call depth exceeded in %s", fn)
	}
	fr := &frame{fn: fn, env: make(map[ssa.Value]Value, 16)}
	for i, p := range fn.Params {
		fr.env[p] = args[i]
	}
	for i, fv := range fn.FreeVars {
		fr.env[fv] = bind[i]
	}
	saveFn := e.curFn
	e.curFn = fn
	ret := e.execBody(fr)
	e.curFn = saveFn
	e.depth--
	return ret
}

func (e *Exec) execBody(fr *frame) (ret Value) {
	fn := fr.fn
	blk := fn.Blocks[0]
	var prev *ssa.BasicBlock
	if fn.Recover != nil {
		defer func() {
			if r := recover(); r != nil {
				pe, ok := r.(*pathEnd)
				if !ok || pe.kind != "panic" {
					panic(r)
				}
				// run deferred calls; if one recovers, continue at Recover block
				fr.panicking = pe
				savePF := e.panicFr
				e.panicFr = fr
				e.runDefers(fr)
				e.panicFr = savePF
				if fr.panicking != nil {
					panic(r)
				}
				ret = e.execFrom(fr, fn.Recover, nil)
			}
		}()
	}
	return e.execFrom(fr, blk, prev)
}

func (e *Exec) execFrom(fr *frame, blk, prev *ssa.BasicBlock) Value {
	for {
		// phis
		nphi := 0
		if prev != nil {
			idx := -1
			for i, p := range blk.Preds {
				if p == prev {
					idx = i
					break
				}
			}
			var vals []Value
			for _, ins := range blk.Instrs {
				phi, ok := ins.(*ssa.Phi)
				if !ok {
					break
				}
				vals = append(vals, e.get(fr, phi.Edges[idx]))
				nphi++
			}
			for i := 0; i < nphi; i++ {
				fr.env[blk.Instrs[i].(*ssa.Phi)] = vals[i]
			}
		}
		var next *ssa.BasicBlock
		for _, ins := range blk.Instrs[nphi:] {
			e.steps++
			if e.steps > e.run.maxSteps {
				e.throw("limit", "step limit exceeded")
			}
			if p := ins.Pos(); p.IsValid() {
				e.curPos = p
			}
			switch x := ins.(type) {
			case *ssa.Jump:
				next = blk.Succs[0]
			case *ssa.If:
				c := e.termOf(e.get(fr, x.Cond))
				if c.IsConst() {
					if c.isTrue() {
						next = blk.Succs[0]
					} else {
						next = blk.Succs[1]
					}
				} else if join, ok := e.tryMerge(fr, blk, c); ok {
					// merged: phis of join already assigned
					prev = nil
					blk = join
					next = nil
					goto merged
				} else if e.run.branch(e, c) {
					next = blk.Succs[0]
				} else {
					next = blk.Succs[1]
				}
			case *ssa.Return:
				e.runDefersIfAny(fr)
				switch len(x.Results) {
				case 0:
					return nil
				case 1:
					return e.get(fr, x.Results[0])
				default:
					tv := make(TupleV, len(x.Results))
					for i, r := range x.Results {
						tv[i] = e.get(fr, r)
					}
					return tv
				}
			case *ssa.Panic:
				v := e.get(fr, x.X)
				e.goPanic("explicit panic: %s", e.describePanicArg(v))
			default:
				e.exec(fr, ins)
			}
		}
		prev = blk
		blk = next
		continue
	merged:
		// execute join block skipping its phis (already set)
		{
			jb := blk
			n := 0
			for _, ins := range jb.Instrs {
				if _, ok := ins.(*ssa.Phi); ok {
					n++
				} else {
					break
				}
			}
			r, nb, done := e.execRest(fr, jb, n)
			if done {
				return r
			}
			prev = jb
			blk = nb
		}
	}
}

// execRest executes block instructions from index n; returns (retval, nextBlock, returned)
func (e *Exec) execRest(fr *frame, blk *ssa.BasicBlock, n int) (Value, *ssa.BasicBlock, bool) {
	for _, ins := range blk.Instrs[n:] {
		e.steps++
		if p := ins.Pos(); p.IsValid() {
			e.curPos = p
		}
		switch x := ins.(type) {
		case *ssa.Jump:
			return nil, blk.Succs[0], false
		case *ssa.If:
			c := e.termOf(e.get(fr, x.Cond))
			if c.IsConst() {
				if c.isTrue() {
					return nil, blk.Succs[0], false
				}
				return nil, blk.Succs[1], false
			}
			if e.run.branch(e, c) {
				return nil, blk.Succs[0], false
			}
			return nil, blk.Succs[1], false
		case *ssa.Return:
			e.runDefersIfAny(fr)
			switch len(x.Results) {
			case 0:
				return nil, nil, true
			case 1:
				return e.get(fr, x.Results[0]), nil, true
			default:
				tv := make(TupleV, len(x.Results))
				for i, r := range x.Results {
					tv[i] = e.get(fr, r)
				}
				return tv, nil, true
			}
		case *ssa.Panic:
			v := e.get(fr, x.X)
			e.goPanic("explicit panic: %s", e.describePanicArg(v))
		default:
			e.exec(fr, ins)
		}
	}
	e.internal("block without terminator")
	return nil, nil, false
}

func (e *Exec) describePanicArg(v Value) string {
	if iv, ok := v.(*IfaceV); ok {
		if s, ok := iv.v.(*StrV); ok {
			if c, ok := s.concrete(); ok {
				return c
			}
		}
		if o, ok := iv.v.(*OpaqueV); ok && o.kind == "error" {
			return o.data.(string)
		}
		if iv.typ != nil {
			return iv.typ.String()
		}
	}
	return fmt.Sprintf("%T", v)
}

func (e *Exec) runDefersIfAny(fr *frame) {
	// Return after RunDefers already ran them (ssa emits RunDefers explicitly)
}

func (e *Exec) runDefers(fr *frame) {
	for len(fr.defers) > 0 {
		d := fr.defers[len(fr.defers)-1]
		fr.defers = fr.defers[:len(fr.defers)-1]
		e.curFrame = fr
		e.callValue(d.fn, d.args, d.call)
	}
}

// ---------------------------------------------------------------- merging of pure diamonds

func pureInstr(ins ssa.Instruction) bool {
	switch x := ins.(type) {
	case *ssa.BinOp:
		switch x.Op {
		case token.QUO, token.REM:
			if c, ok := x.Y.(*ssa.Const); ok && c.Value != nil && constant.Sign(c.Value) != 0 {
				return true
			}
			return false
		case token.SHL, token.SHR:
			_, signed, _ := intWidth(x.Y.Type())
			if signed {
				if _, ok := x.Y.(*ssa.Const); !ok {
					return false
				}
			}
		}
		return true
	case *ssa.UnOp:
		return x.Op != token.ARROW
	case *ssa.Convert:
		_, _, ok1 := intWidth(x.Type())
		_, _, ok2 := intWidth(x.X.Type())
		return ok1 && ok2
	case *ssa.ChangeType:
		return true
	case *ssa.DebugRef:
		return true
	case *ssa.IndexAddr, *ssa.FieldAddr, *ssa.Field, *ssa.Index, *ssa.Extract:
		// side-effect free; may trap, in which case the speculative execution is abandoned
		return true
	}
	return false
}

// tryMerge: blk ends in If on symbolic c. If both arms are pure and rejoin, execute both and ite the phis.
func (e *Exec) tryMerge(fr *frame, blk *ssa.BasicBlock, c *Term) (*ssa.BasicBlock, bool) {
	if e.run.noMerge {
		return nil, false
	}
	s0, s1 := blk.Succs[0], blk.Succs[1]
	arm := func(s, other *ssa.BasicBlock) (join *ssa.BasicBlock, body *ssa.BasicBlock, ok bool) {
		// s is either the join itself (empty arm) or a pure block jumping to join
		if len(s.Preds) == 1 && len(s.Succs) == 1 {
			for _, ins := range s.Instrs[:len(s.Instrs)-1] {
				if !pureInstr(ins) {
					return nil, nil, false
				}
			}
			if _, isJump := s.Instrs[len(s.Instrs)-1].(*ssa.Jump); !isJump {
				return nil, nil, false
			}
			return s.Succs[0], s, true
		}
		return s, nil, true
	}
	j0, b0, ok0 := arm(s0, s1)
	j1, b1, ok1 := arm(s1, s0)
	if !ok0 || !ok1 {
		return nil, false
	}
	var join *ssa.BasicBlock
	switch {
	case b0 != nil && b1 != nil && j0 == j1:
		join = j0
	case b0 != nil && b1 == nil && j0 == s1:
		join = s1
	case b1 != nil && b0 == nil && j1 == s0:
		join = s0
	default:
		return nil, false
	}
	if join == blk {
		return nil, false
	}
	// all phis in join must be scalar-mergeable; evaluate
	p0, p1 := blk, blk
	if b0 != nil {
		p0 = b0
	}
	if b1 != nil {
		p1 = b1
	}
	if p0 == p1 {
		return nil, false
	}
	ok := true
	func() {
		e.spec++
		defer func() {
			e.spec--
			if r := recover(); r != nil {
				if _, is := r.(mergeFail); is {
					ok = false
					return
				}
				if pe, is := r.(*pathEnd); is && pe.kind == "panic" {
					ok = false // an arm may trap: fork instead
					return
				}
				panic(r)
			}
		}()
		for _, b := range []*ssa.BasicBlock{b0, b1} {
			if b == nil {
				continue
			}
			for _, ins := range b.Instrs[:len(b.Instrs)-1] {
				e.exec(fr, ins)
			}
		}
		i0, i1 := -1, -1
		for i, p := range join.Preds {
			if p == p0 {
				i0 = i
			}
			if p == p1 {
				i1 = i
			}
		}
		if i0 < 0 || i1 < 0 {
			ok = false
			return
		}
		var phis []*ssa.Phi
		var vals []Value
		for _, ins := range join.Instrs {
			phi, isPhi := ins.(*ssa.Phi)
			if !isPhi {
				break
			}
			v0, v1 := e.get(fr, phi.Edges[i0]), e.get(fr, phi.Edges[i1])
			vals = append(vals, e.iteValue(c, v0, v1))
			phis = append(phis, phi)
		}
		for i, phi := range phis {
			fr.env[phi] = vals[i]
		}
	}()
	if !ok {
		return nil, false
	}
	e.run.stats.Merges++
	return join, true
}

// ---------------------------------------------------------------- instructions

func (e *Exec) exec(fr *frame, ins ssa.Instruction) {
	switch x := ins.(type) {
	case *ssa.DebugRef:
	case *ssa.BinOp:
		fr.env[x] = e.binop(x.Op, e.get(fr, x.X), e.get(fr, x.Y), x.X.Type(), x.Y.Type())
	case *ssa.UnOp:
		fr.env[x] = e.unop(x, e.get(fr, x.X))
	case *ssa.Convert:
		fr.env[x] = e.convert(e.get(fr, x.X), x.X.Type(), x.Type())
	case *ssa.ChangeType:
		fr.env[x] = e.get(fr, x.X)
	case *ssa.MultiConvert:
		fr.env[x] = e.convert(e.get(fr, x.X), x.X.Type(), x.Type())
	case *ssa.Alloc:
		c := e.newCell(x.Type().(*types.Pointer).Elem())
		fr.env[x] = ptrTo(c, e.b)
	case *ssa.Store:
		e.store(e.get(fr, x.Addr), e.get(fr, x.Val))
	case *ssa.FieldAddr:
		p := e.nonNil(e.get(fr, x.X))
		np := &Ptr{}
		for _, a := range p.alts {
			np.alts = append(np.alts, PtrAlt{a.cond, a.cell.elems[x.Field]})
		}
		fr.env[x] = np
	case *ssa.Field:
		fr.env[x] = e.get(fr, x.X).(*StructV).f[x.Field]
	case *ssa.IndexAddr:
		fr.env[x] = e.indexAddr(e.get(fr, x.X), e.get(fr, x.Index), x.X.Type(), x.Index.Type())
	case *ssa.Index:
		fr.env[x] = e.index(e.get(fr, x.X), e.get(fr, x.Index), x.Index.Type())
	case *ssa.Slice:
		fr.env[x] = e.slice(fr, x)
	case *ssa.SliceToArrayPointer:
		s := e.get(fr, x.X).(*SliceV)
		n := int(x.Type().(*types.Pointer).Elem().Underlying().(*types.Array).Len())
		if s.len < n {
			e.goPanic("slice to array pointer: len %d < %d", s.len, n)
		}
		if s.arr == nil {
			fr.env[x] = &Ptr{}
		} else {
			fr.env[x] = ptrTo(e.subArray(s.arr, s.off, n, x.Type().(*types.Pointer).Elem()), e.b)
		}
	case *ssa.MakeSlice:
		n := e.concretize(e.get(fr, x.Len), "make len")
		c := e.concretize(e.get(fr, x.Cap), "make cap")
		if n < 0 || c < n {
			e.goPanic("makeslice: len out of range")
		}
		if c > e.run.maxAlloc {
			e.throw("limit", "make of %d elements exceeds allocation bound", c)
		}
		et := x.Type().Underlying().(*types.Slice).Elem()
		fr.env[x] = &SliceV{arr: e.newArrayCell(et, c), off: 0, len: n, cap: c}
	case *ssa.MakeInterface:
		fr.env[x] = &IfaceV{typ: x.X.Type(), v: e.get(fr, x.X)}
	case *ssa.MakeClosure:
		fn := x.Fn.(*ssa.Function)
		b := make([]Value, len(x.Bindings))
		for i, bv := range x.Bindings {
			b[i] = e.get(fr, bv)
		}
		fr.env[x] = &FuncV{fn: fn, bind: b}
	case *ssa.MakeMap:
		mt := x.Type().Underlying().(*types.Map)
		fr.env[x] = &MapV{kt: mt.Key(), vt: mt.Elem()}
	case *ssa.MapUpdate:
		m := e.get(fr, x.Map).(*MapV)
		if m == nil {
			e.goPanic("assignment to entry in nil map")
		}
		e.mapSet(m, e.get(fr, x.Key), e.get(fr, x.Value))
	case *ssa.Lookup:
		fr.env[x] = e.lookup(x, e.get(fr, x.X), e.get(fr, x.Index))
	case *ssa.TypeAssert:
		fr.env[x] = e.typeAssert(x, e.get(fr, x.X).(*IfaceV))
	case *ssa.Extract:
		fr.env[x] = e.get(fr, x.Tuple).(TupleV)[x.Index]
	case *ssa.Call:
		e.curFrame = fr
		fr.env[x] = e.call(fr, &x.Call)
	case *ssa.Defer:
		fnv, args := e.prepCall(fr, &x.Call)
		fr.defers = append(fr.defers, deferred{fnv, args, &x.Call})
	case *ssa.RunDefers:
		e.runDefers(fr)
	case *ssa.Range:
		fr.env[x] = e.makeRange(e.get(fr, x.X))
	case *ssa.Next:
		fr.env[x] = e.next(x, e.get(fr, x.Iter))
	case *ssa.ChangeInterface:
		fr.env[x] = e.get(fr, x.X)
	case *ssa.Go:
		e.unsupported("go statement")
	default:
		e.unsupported("instruction %T", ins)
	}
}

func (e *Exec) nonNil(v Value) *Ptr {
	p, ok := v.(*Ptr)
	if !ok {
		e.internal("expected pointer, got %T", v)
	}
	if len(p.alts) == 0 {
		e.goPanic("nil pointer dereference")
	}
	return p
}

func (e *Exec) load(v Value) Value {
	p := e.nonNil(v)
	if len(p.alts) == 1 {
		return e.loadCell(p.alts[0].cell)
	}
	// ite chain; last alt is the default
	r := e.loadCell(p.alts[len(p.alts)-1].cell)
	for i := len(p.alts) - 2; i >= 0; i-- {
		r = e.iteSafe(p.alts[i].cond, e.loadCell(p.alts[i].cell), r)
	}
	return r
}

func (e *Exec) iteSafe(c *Term, x, y Value) (r Value) {
	defer func() {
		if rec := recover(); rec != nil {
			if _, ok := rec.(mergeFail); ok {
				e.unsupported("cannot merge values of type %T under symbolic pointer", x)
			}
			panic(rec)
		}
	}()
	return e.iteValue(c, x, y)
}

func (e *Exec) store(addr Value, v Value) {
	p := e.nonNil(addr)
	if len(p.alts) == 1 {
		e.storeCell(p.alts[0].cell, v)
		e.ilStorePoint()
		return
	}
	for _, a := range p.alts {
		old := e.loadCell(a.cell)
		e.storeCell(a.cell, e.iteSafe(a.cond, v, old))
	}
	e.ilStorePoint()
}

// subArray returns a cell viewing n elements of arr starting at off as an array cell.
func (e *Exec) subArray(arr *Cell, off, n int, t types.Type) *Cell {
	if off == 0 && n == len(arr.elems) {
		return arr
	}
	e.cellN++
	return &Cell{typ: t, elems: arr.elems[off : off+n], id: e.cellN}
}

func (e *Exec) idxTerm(v Value, t types.Type) *Term {
	x := e.termOf(v)
	_, signed, _ := intWidth(t)
	if int(x.S) < 64 {
		if signed {
			return e.b.SExt(x, 64)
		}
		return e.b.ZExt(x, 64)
	}
	return x
}

// boundsCheck: index term idx (64-bit, signed semantics) must satisfy 0 <= idx < n.
// Returns list of feasible concrete... no: adds obligation; afterwards idx in range is assumed.
func (e *Exec) boundsCheck(idx *Term, n int, what string) {
	inb := e.b.Ult(idx, e.b.ConstU(64, uint64(n))) // unsigned compare covers negatives
	if inb.isTrue() {
		return
	}
	if inb.isFalse() {
		e.goPanic("%s: index out of range [%s] with length %d", what, describeValue(idx), n)
	}
	e.run.obligation(e, inb, fmt.Sprintf("%s out of range (len %d)", what, n))
}

func (e *Exec) elemsAt(arr *Cell, off, n int, idx *Term, what string) *Ptr {
	if idx.IsConst() {
		i, _ := e.concreteInt(idx)
		if i < 0 || i >= n {
			e.goPanic("%s: index out of range [%d] with length %d", what, i, n)
		}
		return ptrTo(arr.elems[off+i], e.b)
	}
	e.boundsCheck(idx, n, what)
	// elements that cannot be merged by ite (slices, pointers, interfaces, ...): case split on the index
	if n > 0 {
		c0 := arr.elems[off]
		if _, scalar := c0.v.(*Term); !scalar && c0.elems == nil {
			k := e.run.concretize(e, idx, what)
			if k < 0 || k >= n {
				e.goPanic("%s: index out of range [%d] with length %d", what, k, n)
			}
			return ptrTo(arr.elems[off+k], e.b)
		}
	}
	if n > e.run.maxSymIndex {
		e.throw("limit", "symbolic index into %d elements", n)
	}
	p := &Ptr{}
	mb := e.b.Maybe(idx)
	for i := 0; i < n; i++ {
		ki := big.NewInt(int64(i))
		if new(big.Int).AndNot(ki, mb).Sign() != 0 {
			continue
		}
		p.alts = append(p.alts, PtrAlt{e.b.Eq(idx, e.b.ConstU(64, uint64(i))), arr.elems[off+i]})
	}
	if len(p.alts) == 0 {
		e.goPanic("%s: no feasible index", what)
	}
	return p
}

func (e *Exec) indexAddr(x, idx Value, xt, it types.Type) Value {
	i := e.idxTerm(idx, it)
	switch v := x.(type) {
	case *SliceV:
		if v.arr == nil {
			e.goPanic("index out of range [%s] with length 0", describeValue(i))
		}
		return e.elemsAt(v.arr, v.off, v.len, i, "index")
	case *Ptr:
		p := e.nonNil(v)
		if len(p.alts) != 1 {
			e.unsupported("index through symbolic array pointer")
		}
		c := p.alts[0].cell
		return e.elemsAt(c, 0, len(c.elems), i, "index")
	}
	e.internal("IndexAddr on %T", x)
	return nil
}

func (e *Exec) index(x, idx Value, it types.Type) Value {
	i := e.idxTerm(idx, it)
	switch v := x.(type) {
	case *ArrayV:
		if i.IsConst() {
			k, _ := e.concreteInt(i)
			if k < 0 || k >= len(v.e) {
				e.goPanic("index out of range [%d] with length %d", k, len(v.e))
			}
			return v.e[k]
		}
		e.boundsCheck(i, len(v.e), "index")
		r := v.e[len(v.e)-1]
		for k := len(v.e) - 2; k >= 0; k-- {
			r = e.iteSafe(e.b.Eq(i, e.b.ConstU(64, uint64(k))), v.e[k], r)
		}
		return r
	case *StrV:
		if i.IsConst() {
			k, _ := e.concreteInt(i)
			if k < 0 || k >= len(v.bs) {
				e.goPanic("string index out of range [%d] with length %d", k, len(v.bs))
			}
			return v.bs[k]
		}
		e.boundsCheck(i, len(v.bs), "string index")
		var r Value = v.bs[len(v.bs)-1]
		for k := len(v.bs) - 2; k >= 0; k-- {
			r = e.b.Ite(e.b.Eq(i, e.b.ConstU(64, uint64(k))), v.bs[k], r.(*Term))
		}
		return r
	}
	e.internal("Index on %T", x)
	return nil
}

func (e *Exec) slice(fr *frame, x *ssa.Slice) Value {
	base := e.get(fr, x.X)
	// a symbolic bound first gets its range obligation (0 <= bound <= limit: a violation is reported
	// as a finding and the path continues inside the range), then it is case split
	limit := -1
	geti := func(v ssa.Value, def int, what string) int {
		if v == nil {
			return def
		}
		t := e.idxTerm(e.get(fr, v), v.Type())
		if !t.IsConst() && limit >= 0 {
			inb := e.b.Ult(t, e.b.ConstU(64, uint64(limit)+1))
			if inb.isFalse() {
				e.goPanic("%s: bounds out of range with capacity %d", what, limit)
			}
			if !inb.isTrue() {
				e.run.obligation(e, inb, fmt.Sprintf("%s out of range (capacity %d)", what, limit))
			}
		}
		return e.concretizeBounded(t, what)
	}
	switch b := base.(type) {
	case *SliceV:
		limit = b.cap
	case *Ptr:
		if len(b.alts) == 1 {
			limit = len(b.alts[0].cell.elems)
		}
	case *StrV:
		limit = len(b.bs)
	}
	switch b := base.(type) {
	case *SliceV:
		lo := geti(x.Low, 0, "slice low")
		hi := geti(x.High, b.len, "slice high")
		mx := geti(x.Max, b.cap, "slice max")
		if lo < 0 || hi < lo || mx < hi || mx > b.cap {
			e.goPanic("slice bounds out of range [%d:%d:%d] with capacity %d", lo, hi, mx, b.cap)
		}
		if b.arr == nil {
			return &SliceV{}
		}
		return &SliceV{arr: b.arr, off: b.off + lo, len: hi - lo, cap: mx - lo}
	case *Ptr: // pointer to array
		p := e.nonNil(b)
		if len(p.alts) != 1 {
			e.unsupported("slice of symbolic array pointer")
		}
		c := p.alts[0].cell
		n := len(c.elems)
		lo := geti(x.Low, 0, "slice low")
		hi := geti(x.High, n, "slice high")
		mx := geti(x.Max, n, "slice max")
		if lo < 0 || hi < lo || mx < hi || mx > n {
			e.goPanic("slice bounds out of range [%d:%d:%d] with length %d", lo, hi, mx, n)
		}
		return &SliceV{arr: c, off: lo, len: hi - lo, cap: mx - lo}
	case *StrV:
		lo := geti(x.Low, 0, "slice low")
		hi := geti(x.High, len(b.bs), "slice high")
		if lo < 0 || hi < lo || hi > len(b.bs) {
			e.goPanic("string slice bounds out of range [%d:%d] with length %d", lo, hi, len(b.bs))
		}
		return &StrV{bs: b.bs[lo:hi]}
	}
	e.internal("Slice on %T", base)
	return nil
}

// concretize: turn a term into a concrete int, forking over its feasible values.
func (e *Exec) concretize(v Value, what string) int {
	t := e.termOf(v)
	if int(t.S) < 64 {
		t = e.b.ZExt(t, 64)
	}
	return e.concretizeBounded(t, what)
}

func (e *Exec) concretizeBounded(t *Term, what string) int {
	if t.IsConst() {
		k := signedVal(64, t.K)
		if !k.IsInt64() {
			e.goPanic("%s: value out of range", what)
		}
		return int(k.Int64())
	}
	return e.run.concretize(e, t, what)
}

// ---------------------------------------------------------------- operators

func (e *Exec) binop(op token.Token, x, y Value, xt, yt types.Type) Value {
	switch a := x.(type) {
	case *Term:
		bt, ok := y.(*Term)
		if !ok {
			e.internal("binop operand mismatch %T", y)
		}
		if a.S == SBool {
			switch op {
			case token.EQL:
				return e.b.Eq(a, bt)
			case token.NEQ:
				return e.b.BNot(e.b.Eq(a, bt))
			case token.AND, token.LAND:
				return e.b.BAnd(a, bt)
			case token.OR, token.LOR:
				return e.b.BOr(a, bt)
			}
			e.unsupported("bool binop %s", op)
		}
		if a.S < 0 {
			return e.wideBinop(op, a, bt)
		}
		return e.intBinop(op, a, bt, xt, yt)
	case float64:
		b := y.(float64)
		switch op {
		case token.ADD:
			return a + b
		case token.SUB:
			return a - b
		case token.MUL:
			return a * b
		case token.QUO:
			return a / b
		case token.EQL:
			return e.b.Bool(a == b)
		case token.NEQ:
			return e.b.Bool(a != b)
		case token.LSS:
			return e.b.Bool(a < b)
		case token.LEQ:
			return e.b.Bool(a <= b)
		case token.GTR:
			return e.b.Bool(a > b)
		case token.GEQ:
			return e.b.Bool(a >= b)
		}
	case *StrV:
		b := y.(*StrV)
		switch op {
		case token.ADD:
			return &StrV{bs: append(append([]*Term{}, a.bs...), b.bs...)}
		case token.EQL, token.NEQ:
			r := e.strEq(a, b)
			if op == token.NEQ {
				r = e.b.BNot(r)
			}
			return r
		case token.LSS, token.LEQ, token.GTR, token.GEQ:
			sa, ok1 := a.concrete()
			sb, ok2 := b.concrete()
			if ok1 && ok2 {
				switch op {
				case token.LSS:
					return e.b.Bool(sa < sb)
				case token.LEQ:
					return e.b.Bool(sa <= sb)
				case token.GTR:
					return e.b.Bool(sa > sb)
				default:
					return e.b.Bool(sa >= sb)
				}
			}
			e.unsupported("ordering of symbolic strings")
		}
	}
	if op == token.EQL || op == token.NEQ {
		r := e.valueEq(x, y)
		if op == token.NEQ {
			r = e.b.BNot(r)
		}
		return r
	}
	e.unsupported("binop %s on %T", op, x)
	return nil
}

func (e *Exec) strEq(a, b *StrV) *Term {
	if len(a.bs) != len(b.bs) {
		return e.b.Bool(false)
	}
	cs := make([]*Term, len(a.bs))
	for i := range a.bs {
		cs[i] = e.b.Eq(a.bs[i], b.bs[i])
	}
	return e.b.BAnd(cs...)
}

func (e *Exec) valueEq(x, y Value) *Term {
	switch a := x.(type) {
	case *Term:
		return e.b.Eq(a, y.(*Term))
	case *StrV:
		return e.strEq(a, y.(*StrV))
	case *Ptr:
		b := y.(*Ptr)
		if len(a.alts) == 0 || len(b.alts) == 0 {
			return e.b.Bool(len(a.alts) == 0 && len(b.alts) == 0)
		}
		if len(a.alts) == 1 && len(b.alts) == 1 {
			return e.b.Bool(a.alts[0].cell == b.alts[0].cell || (a.alts[0].cell.elems != nil && len(a.alts[0].cell.elems) > 0 && len(b.alts[0].cell.elems) > 0 && a.alts[0].cell.elems[0] == b.alts[0].cell.elems[0] && len(a.alts[0].cell.elems) == len(b.alts[0].cell.elems)))
		}
		e.unsupported("comparison of symbolic pointers")
	case *IfaceV:
		b := y.(*IfaceV)
		if a.typ == nil || b.typ == nil {
			return e.b.Bool(a.typ == nil && b.typ == nil)
		}
		if !types.Identical(a.typ, b.typ) {
			return e.b.Bool(false)
		}
		return e.valueEq(a.v, b.v)
	case *StructV:
		b := y.(*StructV)
		cs := make([]*Term, len(a.f))
		for i := range a.f {
			cs[i] = e.valueEq(a.f[i], b.f[i])
		}
		return e.b.BAnd(cs...)
	case *ArrayV:
		b := y.(*ArrayV)
		cs := make([]*Term, len(a.e))
		for i := range a.e {
			cs[i] = e.valueEq(a.e[i], b.e[i])
		}
		return e.b.BAnd(cs...)
	case *SliceV:
		b := y.(*SliceV)
		if a.arr == nil || b.arr == nil {
			return e.b.Bool(a.arr == nil && b.arr == nil)
		}
	case *FuncV:
		b := y.(*FuncV)
		an := a.fn == nil && a.builtin == ""
		bn := b.fn == nil && b.builtin == ""
		if an || bn {
			return e.b.Bool(an && bn)
		}
	case *MapV:
		b, _ := y.(*MapV)
		if a == nil || b == nil {
			return e.b.Bool(a == nil && b == nil)
		}
	case *OpaqueV:
		if o, ok := y.(*OpaqueV); ok {
			return e.b.Bool(a == o)
		}
		return e.b.Bool(false)
	case float64:
		return e.b.Bool(a == y.(float64))
	}
	e.unsupported("equality on %T", x)
	return nil
}

func (e *Exec) wideBinop(op token.Token, a, b *Term) Value {
	switch op {
	case token.ADD:
		return e.b.Add(a, b)
	case token.SUB:
		return e.b.Sub(a, b)
	case token.MUL:
		return e.b.Mul(a, b)
	case token.EQL:
		return e.b.Eq(a, b)
	case token.NEQ:
		return e.b.BNot(e.b.Eq(a, b))
	case token.LSS:
		return e.b.ILt(a, b)
	case token.LEQ:
		return e.b.ILe(a, b)
	case token.GTR:
		return e.b.ILt(b, a)
	case token.GEQ:
		return e.b.ILe(b, a)
	}
	e.unsupported("wide binop %s", op)
	return nil
}

func (e *Exec) intBinop(op token.Token, a, b *Term, xt, yt types.Type) Value {
	_, signed, _ := intWidth(xt)
	bb := e.b
	w := int(a.S)
	switch op {
	case token.ADD:
		return bb.Add(a, b)
	case token.SUB:
		return bb.Sub(a, b)
	case token.MUL:
		return bb.Mul(a, b)
	case token.QUO, token.REM:
		nz := bb.BNot(bb.Eq(b, bb.ConstU(w, 0)))
		if nz.isFalse() {
			e.goPanic("integer divide by zero")
		}
		if !nz.isTrue() {
			e.run.obligation(e, nz, "integer divide by zero")
		}
		if signed {
			if op == token.QUO {
				return bb.SDiv(a, b)
			}
			return bb.SRem(a, b)
		}
		if op == token.QUO {
			return bb.UDiv(a, b)
		}
		return bb.URem(a, b)
	case token.AND:
		return bb.And(a, b)
	case token.OR:
		return bb.Or(a, b)
	case token.XOR:
		return bb.Xor(a, b)
	case token.AND_NOT:
		return bb.And(a, bb.Not(b))
	case token.SHL, token.SHR:
		// shift count: width may differ; Go semantics: count >= w gives 0 (or sign fill)
		_, ysigned, _ := intWidth(yt)
		if ysigned {
			neg := bb.Slt(b, bb.ConstU(int(b.S), 0))
			if neg.isTrue() {
				e.goPanic("negative shift amount")
			}
			if !neg.isFalse() {
				e.run.obligation(e, bb.BNot(neg), "negative shift amount")
			}
		}
		var cnt *Term
		var big_ *Term // condition count >= w
		yw := int(b.S)
		if b.IsConst() {
			if b.K.Cmp(big.NewInt(int64(w))) >= 0 {
				big_ = bb.Bool(true)
				cnt = bb.ConstU(w, 0)
			} else {
				big_ = bb.Bool(false)
				cnt = bb.Const(w, b.K)
			}
		} else {
			if yw > w {
				big_ = bb.BNot(bb.Ult(b, bb.ConstU(yw, uint64(w))))
				cnt = bb.Trunc(b, w)
			} else {
				bz := bb.ZExt(b, w)
				big_ = bb.BNot(bb.Ult(bz, bb.ConstU(w, uint64(w))))
				cnt = bz
				if w >= 64 || (uint64(1)<<uint(yw))-1 < uint64(w) {
					if bb.Maybe(b).Cmp(big.NewInt(int64(w))) < 0 {
						big_ = bb.Bool(false)
					}
				}
			}
		}
		if op == token.SHL {
			return bb.Ite(big_, bb.ConstU(w, 0), bb.Shl(a, cnt))
		}
		if signed {
			fill := bb.AShr(a, bb.ConstU(w, uint64(w-1)))
			return bb.Ite(big_, fill, bb.AShr(a, cnt))
		}
		return bb.Ite(big_, bb.ConstU(w, 0), bb.LShr(a, cnt))
	case token.EQL:
		return bb.Eq(a, b)
	case token.NEQ:
		return bb.BNot(bb.Eq(a, b))
	case token.LSS:
		if signed {
			return bb.Slt(a, b)
		}
		return bb.Ult(a, b)
	case token.LEQ:
		if signed {
			return bb.Sle(a, b)
		}
		return bb.Ule(a, b)
	case token.GTR:
		if signed {
			return bb.Slt(b, a)
		}
		return bb.Ult(b, a)
	case token.GEQ:
		if signed {
			return bb.Sle(b, a)
		}
		return bb.Ule(b, a)
	}
	e.unsupported("int binop %s", op)
	return nil
}

func (e *Exec) unop(x *ssa.UnOp, v Value) Value {
	switch x.Op {
	case token.MUL:
		return e.load(v)
	case token.NOT:
		return e.b.BNot(e.termOf(v))
	case token.SUB:
		if f, ok := v.(float64); ok {
			return -f
		}
		return e.b.Neg(e.termOf(v))
	case token.XOR:
		return e.b.Not(e.termOf(v))
	}
	e.unsupported("unop %s", x.Op)
	return nil
}

func (e *Exec) convert(v Value, from, to types.Type) Value {
	fw, fsigned, fint := intWidth(from)
	tw, _, tint := intWidth(to)
	switch {
	case fint && tint:
		t := e.termOf(v)
		if t.S < 0 {
			e.unsupported("conversion of wide integer")
		}
		switch {
		case tw == fw:
			return t
		case tw < fw:
			return e.b.Trunc(t, tw)
		case fsigned:
			return e.b.SExt(t, tw)
		default:
			return e.b.ZExt(t, tw)
		}
	case isString(to):
		switch s := v.(type) {
		case *SliceV:
			r := &StrV{bs: make([]*Term, s.len)}
			for i := 0; i < s.len; i++ {
				r.bs[i] = e.termOf(s.arr.elems[s.off+i].v)
			}
			return r
		case *StrV:
			return s
		case *Term:
			if s.IsConst() {
				return e.strConst(string(rune(s.K.Int64())))
			}
		}
	case isString(from):
		if sl, ok := to.Underlying().(*types.Slice); ok {
			s := v.(*StrV)
			if b, ok := sl.Elem().Underlying().(*types.Basic); ok && b.Kind() == types.Uint8 {
				arr := e.newArrayCell(sl.Elem(), len(s.bs))
				for i, t := range s.bs {
					arr.elems[i].v = t
				}
				return &SliceV{arr: arr, off: 0, len: len(s.bs), cap: len(s.bs)}
			}
			if c, ok := s.concrete(); ok { // []rune
				rs := []rune(c)
				arr := e.newArrayCell(sl.Elem(), len(rs))
				for i, r := range rs {
					arr.elems[i].v = e.b.ConstI(32, int64(r))
				}
				return &SliceV{arr: arr, off: 0, len: len(rs), cap: len(rs)}
			}
		}
	case fint && isFloat(to):
		t := e.termOf(v)
		if t.IsConst() {
			if fsigned {
				return float64(signedVal(fw, t.K).Int64())
			}
			return float64(t.K.Uint64())
		}
		e.unsupported("symbolic int to float conversion")
	case isFloat(from) && tint:
		f := v.(float64)
		_, tsigned, _ := intWidth(to)
		// Go amd64 semantics for out-of-range conversions (cvttsd2si): 0x8000...
		if tsigned {
			if tw == 64 {
				if f != f || f >= math.Exp2(63) || f < -math.Exp2(63) {
					return e.b.Const(64, new(big.Int).Lsh(bigOne, 63))
				}
			}
			return e.b.ConstI(tw, int64(f))
		}
		return e.b.ConstU(tw, uint64(f))
	case isFloat(from) && isFloat(to):
		f := v.(float64)
		if to.Underlying().(*types.Basic).Kind() == types.Float32 {
			return float64(float32(f))
		}
		return f
	}
	// pointer <-> unsafe.Pointer and other identity-like conversions
	if _, ok := v.(*Ptr); ok {
		e.unsupported("unsafe pointer conversion %s -> %s", from, to)
	}
	if _, ok := from.Underlying().(*types.Slice); ok {
		if _, ok := to.Underlying().(*types.Slice); ok {
			return v
		}
	}
	e.unsupported("conversion %s -> %s", from, to)
	return nil
}

// ---------------------------------------------------------------- maps, ranges, type asserts

func (e *Exec) mapKeyEq(a, b Value) bool {
	t := e.valueEq(a, b)
	if !t.IsConst() {
		e.unsupported("symbolic map key")
	}
	return t.isTrue()
}

func (e *Exec) mapSet(m *MapV, k, v Value) {
	for i := range m.keys {
		if e.mapKeyEq(m.keys[i], k) {
			m.vals[i] = v
			return
		}
	}
	m.keys = append(m.keys, k)
	m.vals = append(m.vals, v)
}

func (e *Exec) lookup(x *ssa.Lookup, m, k Value) Value {
	if s, ok := m.(*StrV); ok {
		return e.index(s, k, x.Index.Type())
	}
	mv, _ := m.(*MapV)
	var found Value
	ok := false
	if mv != nil {
		for i := range mv.keys {
			if e.mapKeyEq(mv.keys[i], k) {
				found, ok = mv.vals[i], true
				break
			}
		}
	}
	if !ok {
		found = e.zero(x.X.Type().Underlying().(*types.Map).Elem())
	}
	if x.CommaOk {
		return TupleV{found, e.b.Bool(ok)}
	}
	return found
}

type rangeIter struct {
	m   *MapV
	s   *StrV
	pos int
}

func (e *Exec) makeRange(v Value) Value {
	switch x := v.(type) {
	case *MapV:
		return &OpaqueV{kind: "iter", data: &rangeIter{m: x}}
	case *StrV:
		return &OpaqueV{kind: "iter", data: &rangeIter{s: x}}
	}
	e.unsupported("range over %T", v)
	return nil
}

func (e *Exec) next(x *ssa.Next, it Value) Value {
	ri := it.(*OpaqueV).data.(*rangeIter)
	tt := x.Type().(*types.Tuple)
	if x.IsString {
		if ri.pos >= len(ri.s.bs) {
			return TupleV{e.b.Bool(false), e.b.ConstU(64, 0), e.b.ConstU(32, 0)}
		}
		c, ok := ri.s.concrete()
		if !ok {
			// symbolic string: support ASCII-only decoding under obligation
			b0 := ri.s.bs[ri.pos]
			e.run.assume(e, e.b.Ult(b0, e.b.ConstU(8, 0x80)), "range over symbolic string restricted to ASCII")
			p := ri.pos
			ri.pos++
			return TupleV{e.b.Bool(true), e.b.ConstU(64, uint64(p)), e.b.ZExt(b0, 32)}
		}
		rs := []rune(c[ri.pos:])
		r := rs[0]
		p := ri.pos
		ri.pos += len(string(r))
		if r == 0xFFFD {
			ri.pos = p + 1
		}
		return TupleV{e.b.Bool(true), e.b.ConstU(64, uint64(p)), e.b.ConstI(32, int64(r))}
	}
	kz, vz := e.zero(tt.At(1).Type()), e.zero(tt.At(2).Type())
	if ri.m == nil || ri.pos >= len(ri.m.keys) {
		return TupleV{e.b.Bool(false), kz, vz}
	}
	k, v := ri.m.keys[ri.pos], ri.m.vals[ri.pos]
	ri.pos++
	return TupleV{e.b.Bool(true), k, v}
}

func (e *Exec) typeAssert(x *ssa.TypeAssert, iv *IfaceV) Value {
	ok := false
	var res Value
	if iv.typ != nil {
		if types.IsInterface(x.AssertedType) {
			it := x.AssertedType.Underlying().(*types.Interface)
			ok = types.Implements(iv.typ, it)
			res = iv
		} else {
			ok = types.Identical(iv.typ, x.AssertedType)
			res = iv.v
		}
	}
	if x.CommaOk {
		if !ok {
			res = e.zero(x.AssertedType)
		}
		return TupleV{res, e.b.Bool(ok)}
	}
	if !ok {
		e.goPanic("interface conversion: %v is not %s", iv.typ, x.AssertedType)
	}
	return res
}

// ---------------------------------------------------------------- calls

func (e *Exec) prepCall(fr *frame, c *ssa.CallCommon) (Value, []Value) {
	var args []Value
	if c.IsInvoke() {
		recv := e.get(fr, c.Value)
		iv, ok := recv.(*IfaceV)
		if !ok {
			e.internal("invoke on %T", recv)
		}
		if iv.typ == nil {
			e.goPanic("nil interface method call %s", c.Method.Name())
		}
		// model-object methods
		args = append(args, iv.v)
		for _, a := range c.Args {
			args = append(args, e.get(fr, a))
		}
		if o, ok := iv.v.(*OpaqueV); ok {
			return &FuncV{builtin: "opaque:" + o.kind + "." + c.Method.Name()}, args
		}
		ms := e.prog.MethodSets.MethodSet(iv.typ)
		sel := ms.Lookup(c.Method.Pkg(), c.Method.Name())
		if sel == nil {
			e.internal("method %s not found on %s", c.Method.Name(), iv.typ)
		}
		fn := e.prog.MethodValue(sel)
		if fn == nil {
			e.unsupported("abstract method %s on %s", c.Method.Name(), iv.typ)
		}
		return &FuncV{fn: fn}, args
	}
	fv := e.get(fr, c.Value)
	for _, a := range c.Args {
		args = append(args, e.get(fr, a))
	}
	return fv, args
}

func (e *Exec) call(fr *frame, c *ssa.CallCommon) Value {
	fv, args := e.prepCall(fr, c)
	return e.callValue(fv, args, c)
}

func (e *Exec) callValue(fv Value, args []Value, c *ssa.CallCommon) Value {
	f, ok := fv.(*FuncV)
	if !ok {
		e.internal("call of %T", fv)
	}
	if f.builtin != "" {
		return e.builtin(f.builtin, args, c)
	}
	if f.fn == nil {
		e.goPanic("call of nil function")
	}
	return e.callFunction(f.fn, args, f.bind)
}

func (e *Exec) builtin(name string, args []Value, c *ssa.CallCommon) Value {
	if strings.HasPrefix(name, "opaque:") {
		return e.opaqueMethod(name[7:], args)
	}
	switch name {
	case "len":
		switch x := args[0].(type) {
		case *SliceV:
			return e.b.ConstU(64, uint64(x.len))
		case *StrV:
			return e.b.ConstU(64, uint64(len(x.bs)))
		case *MapV:
			if x == nil {
				return e.b.ConstU(64, 0)
			}
			return e.b.ConstU(64, uint64(len(x.keys)))
		case *Ptr:
			if len(x.alts) == 1 {
				return e.b.ConstU(64, uint64(len(x.alts[0].cell.elems)))
			}
		case *ArrayV:
			return e.b.ConstU(64, uint64(len(x.e)))
		}
	case "cap":
		switch x := args[0].(type) {
		case *SliceV:
			return e.b.ConstU(64, uint64(x.cap))
		case *Ptr:
			if len(x.alts) == 1 {
				return e.b.ConstU(64, uint64(len(x.alts[0].cell.elems)))
			}
		}
	case "copy":
		dst := args[0].(*SliceV)
		n := dst.len
		var src []Value
		switch s := args[1].(type) {
		case *SliceV:
			if s.len < n {
				n = s.len
			}
			src = make([]Value, n)
			for i := 0; i < n; i++ {
				src[i] = e.loadCell(s.arr.elems[s.off+i])
			}
		case *StrV:
			if len(s.bs) < n {
				n = len(s.bs)
			}
			src = make([]Value, n)
			for i := 0; i < n; i++ {
				src[i] = s.bs[i]
			}
		}
		for i := 0; i < n; i++ {
			e.storeCell(dst.arr.elems[dst.off+i], src[i])
		}
		return e.b.ConstU(64, uint64(n))
	case "append":
		s := args[0].(*SliceV)
		var add []Value
		switch a := args[1].(type) {
		case *SliceV:
			for i := 0; i < a.len; i++ {
				add = append(add, e.loadCell(a.arr.elems[a.off+i]))
			}
		case *StrV:
			for _, t := range a.bs {
				add = append(add, t)
			}
		}
		if len(add) == 0 {
			return s
		}
		if s.arr != nil && s.len+len(add) <= s.cap {
			for i, v := range add {
				e.storeCell(s.arr.elems[s.off+s.len+i], v)
			}
			return &SliceV{arr: s.arr, off: s.off, len: s.len + len(add), cap: s.cap}
		}
		et := c.Args[0].Type().Underlying().(*types.Slice).Elem()
		ncap := s.len + len(add)
		if 2*s.cap > ncap { // mimic growth so that aliasing behaviour is realistic
			ncap = 2 * s.cap
		}
		arr := e.newArrayCell(et, ncap)
		for i := 0; i < s.len; i++ {
			e.storeCell(arr.elems[i], e.loadCell(s.arr.elems[s.off+i]))
		}
		for i, v := range add {
			e.storeCell(arr.elems[s.len+i], v)
		}
		return &SliceV{arr: arr, off: 0, len: s.len + len(add), cap: ncap}
	case "panic":
		e.goPanic("explicit panic: %s", e.describePanicArg(args[0]))
	case "recover":
		fr := e.panicFr
		if fr != nil && fr.panicking != nil {
			pe := fr.panicking
			fr.panicking = nil
			return &IfaceV{typ: types.Typ[types.String], v: e.strConst(pe.msg)}
		}
		return &IfaceV{}
	case "min", "max":
		r := e.termOf(args[0])
		_, signed, _ := intWidth(c.Args[0].Type())
		for _, a := range args[1:] {
			t := e.termOf(a)
			var lt *Term
			if signed {
				lt = e.b.Slt(t, r)
			} else {
				lt = e.b.Ult(t, r)
			}
			if name == "max" {
				lt = e.b.BNot(e.b.BOr(lt, e.b.Eq(t, r)))
			}
			r = e.b.Ite(lt, t, r)
		}
		return r
	case "delete":
		m := args[0].(*MapV)
		if m != nil {
			for i := range m.keys {
				if e.mapKeyEq(m.keys[i], args[1]) {
					m.keys = append(m.keys[:i], m.keys[i+1:]...)
					m.vals = append(m.vals[:i], m.vals[i+1:]...)
					break
				}
			}
		}
		return nil
	case "clear":
		switch x := args[0].(type) {
		case *SliceV:
			for i := 0; i < x.len; i++ {
				c := x.arr.elems[x.off+i]
				e.storeCell(c, e.zero(c.typ))
			}
		case *MapV:
			if x != nil {
				x.keys, x.vals = nil, nil
			}
		}
		return nil
	case "print", "println":
		return nil
	}
	e.unsupported("builtin %s on %T", name, args[0])
	return nil
}
