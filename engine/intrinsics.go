package main

// Harness intrinsics (zz*) and intrinsics for standard-library leaf functions.

import (
	"fmt"
	"go/types"
	"math/big"
	"strings"

	"golang.org/x/tools/go/ssa"
)

func (e *Exec) argStr(v Value) string {
	s, ok := v.(*StrV)
	if !ok {
		e.internal("intrinsic expects string, got %T", v)
	}
	c, ok := s.concrete()
	if !ok {
		e.internal("intrinsic expects concrete string")
	}
	return c
}

func (e *Exec) argInt(v Value) int {
	i, ok := e.concreteInt(v)
	if !ok {
		e.internal("intrinsic expects concrete int")
	}
	return i
}

func (e *Exec) input(name string, w int) *Term {
	r := e.run
	r.inputs = append(r.inputs, name)
	return e.b.Var(name, Sort(w))
}

// fill all integer leaves reachable from cell with fresh input variables.
func (e *Exec) fillCell(c *Cell, name string) {
	if c.elems != nil {
		for i, ec := range c.elems {
			if _, ok := c.typ.Underlying().(*types.Struct); ok {
				e.fillCell(ec, fmt.Sprintf("%s.%s", name, c.typ.Underlying().(*types.Struct).Field(i).Name()))
			} else {
				e.fillCell(ec, fmt.Sprintf("%s[%d]", name, i))
			}
		}
		return
	}
	if w, signed, ok := intWidth(c.typ); ok {
		if signed {
			e.b.SignedVars[name] = true
		}
		c.v = e.input(name, w)
		return
	}
	if isBool(c.typ) {
		c.v = e.b.Eq(e.input(name, 1), e.b.ConstU(1, 1))
		return
	}
	switch v := c.v.(type) {
	case *SliceV:
		if v.arr != nil {
			for i := 0; i < v.len; i++ {
				e.fillCell(v.arr.elems[v.off+i], fmt.Sprintf("%s[%d]", name, i))
			}
		}
	case *Ptr:
		if len(v.alts) == 1 {
			e.fillCell(v.alts[0].cell, name)
		}
	}
}

// walkLeaves visits the leaf cells reachable from a pointer / slice / interface value (following
// one level of pointers and slices inside, like fillCell)
func (e *Exec) walkLeaves(v Value, f func(*Cell)) {
	var cell func(c *Cell)
	cell = func(c *Cell) {
		if c.elems != nil {
			for _, ec := range c.elems {
				cell(ec)
			}
			return
		}
		switch x := c.v.(type) {
		case *SliceV:
			if x.arr != nil {
				for i := 0; i < x.len; i++ {
					cell(x.arr.elems[x.off+i])
				}
			}
			return
		case *Ptr:
			if len(x.alts) == 1 {
				cell(x.alts[0].cell)
			}
			return
		}
		f(c)
	}
	switch x := v.(type) {
	case *Ptr:
		cell(e.nonNil(x).alts[0].cell)
	case *SliceV:
		for i := 0; i < x.len; i++ {
			cell(x.arr.elems[x.off+i])
		}
	case *IfaceV:
		e.walkLeaves(x.v, f)
	default:
		e.internal("walkLeaves on %T", v)
	}
}

func (e *Exec) fillValue(v Value, name string) {
	switch x := v.(type) {
	case *Ptr:
		p := e.nonNil(x)
		e.fillCell(p.alts[0].cell, name)
	case *SliceV:
		for i := 0; i < x.len; i++ {
			e.fillCell(x.arr.elems[x.off+i], fmt.Sprintf("%s[%d]", name, i))
		}
	case *IfaceV:
		e.fillValue(x.v, name)
	default:
		e.internal("zzFill on %T", v)
	}
}

func (e *Exec) sliceTerms(v Value) []*Term {
	s, ok := v.(*SliceV)
	if !ok {
		e.internal("expected slice, got %T", v)
	}
	out := make([]*Term, s.len)
	for i := range out {
		out[i] = e.termOf(s.arr.elems[s.off+i].v)
	}
	return out
}

// little-endian concatenation of equally sized terms into one wide BV
func (e *Exec) concatLE(ts []*Term) *Term {
	if len(ts) == 0 {
		e.internal("concat of nothing")
	}
	r := ts[0]
	for _, t := range ts[1:] {
		r = e.b.Concat(t, r)
	}
	return r
}

func (e *Exec) wideLE(ts []*Term) *Term {
	// Σ ts[i] * 2^(w*i) as Int
	b := e.b
	var sum *Term = b.IntConst(big.NewInt(0))
	sh := 0
	// regroup small elements into 64-bit chunks (adjacent extracts collapse to the limb they came from)
	if len(ts) > 0 && int(ts[0].S) < 64 && 64%int(ts[0].S) == 0 {
		per := 64 / int(ts[0].S)
		var g []*Term
		for i := 0; i < len(ts); i += per {
			j := i + per
			if j > len(ts) {
				j = len(ts)
			}
			g = append(g, e.concatLE(ts[i:j]))
		}
		ts = g
	}
	for _, t := range ts {
		term := b.Bv2Int(t)
		if sh > 0 {
			term = b.Mul(b.IntConst(pow2(sh)), term)
		}
		sum = b.Add(sum, term)
		sh += int(t.S)
	}
	return sum
}

func (e *Exec) bigConst(s string) *big.Int {
	s = strings.ReplaceAll(s, "_", "")
	v, ok := new(big.Int).SetString(s, 0)
	if !ok {
		e.internal("bad integer literal %q", s)
	}
	return v
}

// groupLimbs: bytes (LE) -> 64-bit limb terms
func (e *Exec) groupLimbs(ts []*Term, limbBits int) []*Term {
	w := int(ts[0].S)
	if w == limbBits {
		return ts
	}
	per := limbBits / w
	if len(ts)%per != 0 {
		e.internal("limb grouping: %d elements of %d bits into %d-bit limbs", len(ts), w, limbBits)
	}
	var out []*Term
	for i := 0; i < len(ts); i += per {
		out = append(out, e.concatLE(ts[i:i+per]))
	}
	return out
}

func (e *Exec) zzIntrinsic(name string, args []Value) (Value, bool) {
	b := e.b
	r := e.run
	switch name {
	case "zzU8", "zzU16", "zzU32", "zzU64", "zzI8", "zzI16", "zzI32", "zzI64", "zzInt", "zzUint":
		w := map[string]int{"zzU8": 8, "zzU16": 16, "zzU32": 32, "zzU64": 64, "zzI8": 8, "zzI16": 16, "zzI32": 32, "zzI64": 64, "zzInt": 64, "zzUint": 64}[name]
		if name[2] == 'I' {
			b.SignedVars[e.argStr(args[0])] = true
		}
		return e.input(e.argStr(args[0]), w), true
	case "zzBool":
		return b.Eq(e.input(e.argStr(args[0]), 1), b.ConstU(1, 1)), true
	case "zzFill":
		e.fillValue(args[1], e.argStr(args[0]))
		return nil, true
	case "zzFillLimbs":
		// bytes of a slice/array defined as extracts of fresh 64-bit (or given width) limb variables
		nm := e.argStr(args[0])
		var cells []*Cell
		switch x := args[1].(type) {
		case *SliceV:
			for i := 0; i < x.len; i++ {
				cells = append(cells, x.arr.elems[x.off+i])
			}
		default:
			e.internal("zzFillLimbs on %T", x)
		}
		ew, _, _ := intWidth(cells[0].typ)
		per := 64 / ew
		for i := 0; i < len(cells); i += per {
			n := per
			if i+n > len(cells) {
				n = len(cells) - i
			}
			lv := e.input(fmt.Sprintf("%s[%d]", nm, i/per), ew*n)
			for j := 0; j < n; j++ {
				cells[i+j].v = b.Extract(lv, ew*j+ew-1, ew*j)
			}
		}
		return nil, true
	case "zzLen":
		nm := e.argStr(args[0])
		lo, hi := e.argInt(args[1]), e.argInt(args[2])
		var vals []int
		for v := lo; v <= hi; v++ {
			vals = append(vals, v)
		}
		v := r.choose(e, vals)
		r.lens[nm] = v
		return b.ConstU(64, uint64(v)), true
	case "zzPick":
		// choose among explicit values: zzPick(name, v0, v1, ...)
		nm := e.argStr(args[0])
		var vals []int
		for _, t := range e.sliceTerms(args[1]) {
			i, _ := e.concreteInt(t)
			vals = append(vals, i)
		}
		v := r.choose(e, vals)
		r.lens[nm] = v
		return b.ConstU(64, uint64(v)), true
	case "zzConcU8", "zzConcU16", "zzConcU32", "zzConcU64", "zzConcInt":
		// case-split on the value of a term (one path per feasible value); returns the constant
		t := e.termOf(args[0])
		if t.IsConst() {
			return t, true
		}
		w := int(t.S)
		v := r.concretize(e, b.ZExt(t, 64), "zzConc")
		return b.ConstU(w, uint64(v)), true
	case "zzAsmCall":
		e.asmCallIntrinsic(args)
		return nil, true
	case "zzSymbolic":
		return b.Bool(true), true
	case "zzThorough":
		// wider bounds in the thorough (and deep) tier
		return b.Bool(*flagTier != "quick"), true
	case "zzAssume":
		r.assume(e, e.termOf(args[0]), "")
		// assumption may make the path infeasible; check lazily at next query
		return nil, true
	case "zzAssumeNote":
		r.assume(e, e.termOf(args[0]), e.argStr(args[1]))
		return nil, true
	case "zzAssert":
		r.check(e, "assert", e.argStr(args[1]), e.termOf(args[0]))
		return nil, true
	case "zzReach":
		lbl := e.argStr(args[0])
		if !r.reached[lbl] {
			res := r.query(nil, false, "reach")
			if res.Status == "sat" {
				r.reached[lbl] = true
			}
		}
		return nil, true
	case "zzNote":
		r.assumes[e.argStr(args[0])] = true
		return nil, true
	case "zzStub":
		r.stubs[e.argStr(args[0])] = true
		return nil, true
	case "zzAnd", "zzOr":
		ts := e.sliceTerms(args[0])
		if name == "zzAnd" {
			return b.BAnd(ts...), true
		}
		return b.BOr(ts...), true
	case "zzAnd2":
		return b.BAnd(e.termOf(args[0]), e.termOf(args[1])), true
	case "zzOr2":
		return b.BOr(e.termOf(args[0]), e.termOf(args[1])), true
	case "zzImplies":
		return b.Implies(e.termOf(args[0]), e.termOf(args[1])), true
	case "zzIff":
		return b.Eq(e.termOf(args[0]), e.termOf(args[1])), true
	case "zzNot":
		return b.BNot(e.termOf(args[0])), true
	case "zzIteU64", "zzIteInt":
		return b.Ite(e.termOf(args[0]), e.termOf(args[1]), e.termOf(args[2])), true
	case "zzBytesEq":
		x, y := e.sliceTerms(args[0]), e.sliceTerms(args[1])
		if len(x) != len(y) {
			return b.Bool(false), true
		}
		cs := make([]*Term, len(x))
		for i := range x {
			cs[i] = b.Eq(x[i], y[i])
		}
		return b.BAnd(cs...), true
	case "zzSame":
		// structural equality of two pointed-to objects (all leaves)
		return e.deepEq(args[0], args[1]), true
	case "zzIsConcrete":
		t, ok := args[0].(*Term)
		return b.Bool(ok && t.IsConst()), true

	// ---- wide integers (Int sort)
	case "zzWLE", "zzWLE64", "zzWLE32":
		return e.wideLE(e.sliceTerms(args[0])), true
	case "zzWBE":
		ts := e.sliceTerms(args[0])
		rev := make([]*Term, len(ts))
		for i, t := range ts {
			rev[len(ts)-1-i] = t
		}
		return e.wideLE(rev), true
	case "zzWConst":
		return b.IntConst(e.bigConst(e.argStr(args[0]))), true
	case "zzWU":
		return b.Bv2Int(e.termOf(args[0])), true
	case "zzWS":
		return b.SInt(e.termOf(args[0])), true
	case "zzWAdd":
		return b.Add(e.termOf(args[0]), e.termOf(args[1])), true
	case "zzWSub":
		return b.Sub(e.termOf(args[0]), e.termOf(args[1])), true
	case "zzWMul":
		return b.Mul(e.termOf(args[0]), e.termOf(args[1])), true
	case "zzWMulC":
		return b.Mul(b.IntConst(e.bigConst(e.argStr(args[1]))), e.termOf(args[0])), true
	case "zzWShl":
		return b.Mul(b.IntConst(pow2(e.argInt(args[1]))), e.termOf(args[0])), true
	case "zzWMod":
		return b.IMod(e.termOf(args[0]), b.IntConst(e.bigConst(e.argStr(args[1])))), true
	case "zzWDiv":
		return b.IDiv(e.termOf(args[0]), b.IntConst(e.bigConst(e.argStr(args[1])))), true
	case "zzWEq":
		return b.Eq(e.termOf(args[0]), e.termOf(args[1])), true
	case "zzWLt":
		return b.ILt(e.termOf(args[0]), e.termOf(args[1])), true
	case "zzWLe":
		return b.ILe(e.termOf(args[0]), e.termOf(args[1])), true
	case "zzWCong":
		// a ≡ b (mod m)
		d := b.Sub(e.termOf(args[0]), e.termOf(args[1]))
		return b.Eq(b.IMod(d, b.IntConst(e.bigConst(e.argStr(args[2])))), b.IntConst(big.NewInt(0))), true
	case "zzWIte":
		return b.Ite(e.termOf(args[0]), e.termOf(args[1]), e.termOf(args[2])), true
	case "zzWMulLimbs", "zzWMulLimbs64":
		// Σ (x_i * y_j) 2^(64(i+j)) with the same 128-bit product terms bits.Mul64 creates
		xs := e.groupLimbs(e.sliceTerms(args[0]), 64)
		ys := e.groupLimbs(e.sliceTerms(args[1]), 64)
		sum := b.IntConst(big.NewInt(0))
		for i, x := range xs {
			for j, y := range ys {
				p := b.Bv2Int(b.Mul(b.ZExt(x, 128), b.ZExt(y, 128)))
				sum = b.Add(sum, b.Mul(b.IntConst(pow2(64*(i+j))), p))
			}
		}
		return sum, true
	case "zzUF":
		// zzUF(name, outLen, args ...[]byte) []byte : uninterpreted function over byte strings
		nm := e.argStr(args[0])
		n := e.argInt(args[1])
		var parts []*Term
		for _, a := range e.variadic(args[2]) {
			parts = append(parts, e.sliceTerms(a)...)
		}
		out := e.ufBytes(nm, parts, n)
		return e.bytesToSlice(out), true
	// ---- abstract field elements (Real sort; DESIGN §2.5)
	case "zzRVar":
		return b.Var(e.argStr(args[0]), SReal), true
	case "zzRFresh":
		e.run.havocN++
		return b.Var(fmt.Sprintf("rfresh!%d", e.run.havocN), SReal), true
	case "zzRConst":
		return b.RealConst(big.NewInt(int64(e.argInt(args[0])))), true
	case "zzRAdd":
		return b.Add(e.termOf(args[0]), e.termOf(args[1])), true
	case "zzRSub":
		return b.Sub(e.termOf(args[0]), e.termOf(args[1])), true
	case "zzRMul":
		return b.Mul(e.termOf(args[0]), e.termOf(args[1])), true
	case "zzRNeg":
		return b.Sub(b.RealConst(big.NewInt(0)), e.termOf(args[0])), true
	case "zzREq":
		return b.Eq(e.termOf(args[0]), e.termOf(args[1])), true
	case "zzRInv":
		// y with x*y = 1 (x must be non-zero: obligation)
		x := e.termOf(args[0])
		nz := b.BNot(b.Eq(x, b.RealConst(big.NewInt(0))))
		if !nz.isTrue() {
			r.check(e, "obligation", "inverse of zero field element", nz)
		}
		e.run.havocN++
		y := b.Var(fmt.Sprintf("rinv!%d", e.run.havocN), SReal)
		r.assume(e, b.Eq(b.Mul(x, y), b.RealConst(big.NewInt(1))), "")
		return y, true
	case "zzRToBytes":
		// injective-by-congruence encoding of an abstract field element: n bytes = UF(real)
		nm := e.argStr(args[0])
		n := e.argInt(args[1])
		e.run.stubs["UF:"+nm] = true
		res := b.UF(fmt.Sprintf("%s_real_%d", nm, n), Sort(8*n), e.termOf(args[2]))
		out := make([]*Term, n)
		for i := 0; i < n; i++ {
			out[i] = b.Extract(res, 8*i+7, 8*i)
		}
		return e.bytesToSlice(out), true
	case "zzRFromBytes":
		// abstract field element as an uninterpreted function of byte strings
		nm := e.argStr(args[0])
		var parts []*Term
		for _, a := range e.variadic(args[1]) {
			parts = append(parts, e.sliceTerms(a)...)
		}
		e.run.stubs["UF:"+nm] = true
		if len(parts) == 0 {
			return b.UF(nm+"_0_real", SReal), true
		}
		arg := parts[0]
		for _, p := range parts[1:] {
			arg = b.Concat(p, arg)
		}
		return b.UF(fmt.Sprintf("%s_%d_real", nm, int(arg.S)), SReal, arg), true
	case "zzUF64":
		// zzUF64(name, outWords, args ...[]uint64) []uint64
		nm := e.argStr(args[0])
		n := e.argInt(args[1])
		var parts []*Term
		for _, a := range e.variadic(args[2]) {
			parts = append(parts, e.sliceTerms(a)...)
		}
		e.run.stubs["UF:"+nm] = true
		var res *Term
		if len(parts) == 0 {
			res = b.UF(fmt.Sprintf("%s_0_%dw", nm, n), Sort(64*n))
		} else {
			arg := parts[0]
			for _, p := range parts[1:] {
				arg = b.Concat(p, arg)
			}
			res = b.UF(fmt.Sprintf("%s_%d_%dw", nm, int(arg.S), n), Sort(64*n), arg)
		}
		arr := e.newArrayCell(types.Typ[types.Uint64], n)
		for i := 0; i < n; i++ {
			arr.elems[i].v = b.Extract(res, 64*i+63, 64*i)
		}
		return &SliceV{arr: arr, off: 0, len: n, cap: n}, true
	case "zzInterleave":
		return e.b.Bool(e.interleave(args[0], args[1], e.argInt(args[2]))), true
	case "zzMemoObj":
		// zzMemoObj(name, out, ins...): like zzUFObj, but the outputs are fresh unconstrained values
		// memoised on the syntactic identity of the inputs.  Two calls with identical input terms get
		// the same outputs; calls whose inputs differ syntactically get independent outputs (an
		// over-approximation of a function: it can only add behaviours, never hide one).
		nm := e.argStr(args[0])
		var key strings.Builder
		key.WriteString(nm)
		for _, a := range e.variadic(args[2]) {
			e.walkLeaves(a, func(c *Cell) {
				if _, _, ok := intWidth(c.typ); ok {
					fmt.Fprintf(&key, ",%d", e.termOf(c.v).ID)
				}
			})
		}
		if e.run.memoObj == nil {
			e.run.memoObj = map[string][]*Term{}
		}
		outs, seen := e.run.memoObj[key.String()]
		idx := 0
		e.run.stubs["memo-function:"+nm] = true
		e.walkLeaves(args[1], func(c *Cell) {
			if w, _, ok := intWidth(c.typ); ok {
				if !seen {
					e.run.havocN++
					outs = append(outs, b.Var(fmt.Sprintf("memo!%s!%d!%d", nm, e.run.havocN, idx), Sort(w)))
				}
				c.v = outs[idx]
				idx++
			}
		})
		e.run.memoObj[key.String()] = outs
		return nil, true
	case "zzUFObj":
		// zzUFObj(name, out, ins...): every integer leaf of *out becomes an uninterpreted function
		// (one per leaf position) of all integer leaves of the inputs
		nm := e.argStr(args[0])
		var parts []*Term
		for _, a := range e.variadic(args[2]) {
			e.walkLeaves(a, func(c *Cell) {
				if _, _, ok := intWidth(c.typ); ok {
					parts = append(parts, e.termOf(c.v))
				}
			})
		}
		idx := 0
		var arg *Term
		if len(parts) > 0 {
			arg = e.concatLE(parts)
		}
		e.run.stubs["UF:"+nm] = true
		e.walkLeaves(args[1], func(c *Cell) {
			if w, _, ok := intWidth(c.typ); ok {
				if arg == nil {
					c.v = b.UF(fmt.Sprintf("%s.%d_0_%d", nm, idx, w), Sort(w))
				} else {
					c.v = b.UF(fmt.Sprintf("%s.%d_%d_%d", nm, idx, int(arg.S), w), Sort(w), arg)
				}
				idx++
			}
		})
		return nil, true
	case "zzHavoc":
		// fill every integer leaf with a fresh unconstrained value (model-level nondeterminism)
		e.run.havocN++
		e.fillValue(args[0], fmt.Sprintf("havoc!%d", e.run.havocN))
		return nil, true
	case "zzFreshBool":
		e.run.havocN++
		return b.Eq(b.Var(fmt.Sprintf("havocb!%d", e.run.havocN), 1), b.ConstU(1, 1)), true
	case "zzFreshU64":
		e.run.havocN++
		return b.Var(fmt.Sprintf("havocw!%d", e.run.havocN), 64), true
	case "zzUFBool":
		nm := e.argStr(args[0])
		var parts []*Term
		for _, a := range e.variadic(args[1]) {
			parts = append(parts, e.sliceTerms(a)...)
		}
		t := e.ufBytes(nm, parts, 1)
		return b.Eq(b.Extract(t[0], 0, 0), b.ConstU(1, 1)), true
	}
	return nil, false
}

func (e *Exec) variadic(v Value) []Value {
	s := v.(*SliceV)
	out := make([]Value, s.len)
	for i := range out {
		out[i] = e.loadCell(s.arr.elems[s.off+i])
	}
	return out
}

// ufBytes: n output bytes of UF name applied to the concatenation of parts.
func (e *Exec) ufBytes(name string, parts []*Term, n int) []*Term {
	b := e.b
	e.run.stubs["UF:"+name] = true
	var res *Term
	if len(parts) == 0 {
		res = b.UF(fmt.Sprintf("%s_0_%d", name, n), Sort(8*n))
	} else {
		// little-endian concat (later bytes higher) so that re-assembled byte strings collapse
		arg := parts[0]
		for _, p := range parts[1:] {
			arg = b.Concat(p, arg)
		}
		res = b.UF(fmt.Sprintf("%s_%d_%d", name, int(arg.S), n), Sort(8*n), arg)
	}
	out := make([]*Term, n)
	for i := 0; i < n; i++ {
		out[i] = b.Extract(res, 8*i+7, 8*i)
	}
	return out
}

func (e *Exec) bytesToSlice(ts []*Term) *SliceV {
	arr := e.newArrayCell(types.Typ[types.Uint8], len(ts))
	for i, t := range ts {
		arr.elems[i].v = t
	}
	return &SliceV{arr: arr, off: 0, len: len(ts), cap: len(ts)}
}

func (e *Exec) deepEq(x, y Value) *Term {
	switch a := x.(type) {
	case *Ptr:
		bp := y.(*Ptr)
		if len(a.alts) == 0 || len(bp.alts) == 0 {
			return e.b.Bool(len(a.alts) == len(bp.alts))
		}
		return e.deepEq(e.load(a), e.load(bp))
	case *SliceV:
		bs := y.(*SliceV)
		if a.len != bs.len {
			return e.b.Bool(false)
		}
		cs := []*Term{}
		for i := 0; i < a.len; i++ {
			cs = append(cs, e.deepEq(e.loadCell(a.arr.elems[a.off+i]), e.loadCell(bs.arr.elems[bs.off+i])))
		}
		return e.b.BAnd(cs...)
	case *StructV:
		bs := y.(*StructV)
		cs := []*Term{}
		for i := range a.f {
			cs = append(cs, e.deepEq(a.f[i], bs.f[i]))
		}
		return e.b.BAnd(cs...)
	case *ArrayV:
		bs := y.(*ArrayV)
		cs := []*Term{}
		for i := range a.e {
			cs = append(cs, e.deepEq(a.e[i], bs.e[i]))
		}
		return e.b.BAnd(cs...)
	case *IfaceV:
		bi := y.(*IfaceV)
		if a.typ == nil || bi.typ == nil {
			return e.b.Bool(a.typ == nil && bi.typ == nil)
		}
		if !types.Identical(a.typ, bi.typ) {
			return e.b.Bool(false)
		}
		return e.deepEq(a.v, bi.v)
	}
	return e.valueEq(x, y)
}

// ---------------------------------------------------------------- stdlib intrinsics

func (e *Exec) intrinsic(fn *ssa.Function, args []Value) (Value, bool) {
	name := fn.Name()
	if strings.HasPrefix(name, "zz") && fn.Pkg != nil {
		if v, ok := e.zzIntrinsic(name, args); ok {
			return v, true
		}
	}
	full := fn.String()
	b := e.b
	switch full {
	case "math/bits.Add64", "math/bits.Add32", "math/bits.Add":
		w := 64
		if full == "math/bits.Add32" {
			w = 32
		}
		x, y, c := e.termOf(args[0]), e.termOf(args[1]), e.termOf(args[2])
		s := b.AddC(x, y, c) // exact for the documented carry domain {0,1}
		return TupleV{b.Extract(s, w-1, 0), b.ZExt(b.Extract(s, w, w), w)}, true
	case "math/bits.Sub64", "math/bits.Sub32", "math/bits.Sub":
		w := 64
		if full == "math/bits.Sub32" {
			w = 32
		}
		x, y, c := e.termOf(args[0]), e.termOf(args[1]), e.termOf(args[2])
		d := b.SubB(x, y, c)
		return TupleV{b.Extract(d, w-1, 0), b.ZExt(b.Extract(d, w, w), w)}, true
	case "math/bits.Mul64", "math/bits.Mul32", "math/bits.Mul":
		w := 64
		if full == "math/bits.Mul32" {
			w = 32
		}
		x, y := e.termOf(args[0]), e.termOf(args[1])
		p := b.Mul(b.ZExt(x, 2*w), b.ZExt(y, 2*w))
		return TupleV{b.Extract(p, 2*w-1, w), b.Extract(p, w-1, 0)}, true
	case "math/bits.RotateLeft64", "math/bits.RotateLeft32", "math/bits.RotateLeft16", "math/bits.RotateLeft8", "math/bits.RotateLeft":
		x := e.termOf(args[0])
		w := int(x.S)
		if k, ok := e.concreteInt(args[1]); ok {
			k = ((k % w) + w) % w
			if k == 0 {
				return x, true
			}
			return b.Concat(b.Extract(x, w-1-k, 0), b.Extract(x, w-1, w-k)), true
		}
	case "math/bits.Len64", "math/bits.Len32", "math/bits.Len", "math/bits.Len16", "math/bits.Len8":
		x := e.termOf(args[0])
		if x.IsConst() {
			return b.ConstU(64, uint64(x.K.BitLen())), true
		}
		w := int(x.S)
		r := b.ConstU(64, 0)
		for i := 0; i < w; i++ {
			r = b.Ite(b.Eq(b.Extract(x, i, i), b.ConstU(1, 1)), b.ConstU(64, uint64(i+1)), r)
		}
		return r, true
	case "math/bits.LeadingZeros64", "math/bits.LeadingZeros32":
		x := e.termOf(args[0])
		w := int(x.S)
		r := b.ConstU(64, uint64(w))
		for i := 0; i < w; i++ {
			r = b.Ite(b.Eq(b.Extract(x, i, i), b.ConstU(1, 1)), b.ConstU(64, uint64(w-1-i)), r)
		}
		return r, true
	case "math/bits.TrailingZeros64", "math/bits.TrailingZeros32", "math/bits.TrailingZeros", "math/bits.TrailingZeros8", "math/bits.TrailingZeros16":
		x := e.termOf(args[0])
		w := int(x.S)
		r := b.ConstU(64, uint64(w))
		for i := w - 1; i >= 0; i-- {
			r = b.Ite(b.Eq(b.Extract(x, i, i), b.ConstU(1, 1)), b.ConstU(64, uint64(i)), r)
		}
		return r, true
	case "math/bits.OnesCount64", "math/bits.OnesCount32", "math/bits.OnesCount8", "math/bits.OnesCount16", "math/bits.OnesCount":
		x := e.termOf(args[0])
		w := int(x.S)
		r := b.ConstU(64, 0)
		for i := 0; i < w; i++ {
			r = b.Add(r, b.ZExt(b.Extract(x, i, i), 64))
		}
		return r, true
	case "math/bits.ReverseBytes64", "math/bits.ReverseBytes32", "math/bits.ReverseBytes16":
		x := e.termOf(args[0])
		w := int(x.S)
		var r *Term
		for i := 0; i < w/8; i++ {
			by := b.Extract(x, 8*i+7, 8*i)
			if r == nil {
				r = by
			} else {
				r = b.Concat(r, by)
			}
		}
		return r, true
	case "crypto/subtle.XORBytes":
		dst, x, y := args[0].(*SliceV), args[1].(*SliceV), args[2].(*SliceV)
		n := x.len
		if y.len < n {
			n = y.len
		}
		if n == 0 {
			return b.ConstU(64, 0), true
		}
		if dst.len < n {
			e.goPanic("subtle.XORBytes: dst too short")
		}
		vals := make([]*Term, n)
		for i := 0; i < n; i++ {
			vals[i] = b.Xor(e.termOf(x.arr.elems[x.off+i].v), e.termOf(y.arr.elems[y.off+i].v))
		}
		for i := 0; i < n; i++ {
			dst.arr.elems[dst.off+i].v = vals[i]
		}
		return b.ConstU(64, uint64(n)), true
	case "bytes.IndexByte":
		x := args[0].(*SliceV)
		c := e.termOf(args[1])
		r := b.Const(64, big.NewInt(-1))
		for i := x.len - 1; i >= 0; i-- {
			r = b.Ite(b.Eq(e.termOf(x.arr.elems[x.off+i].v), c), b.ConstU(64, uint64(i)), r)
		}
		return r, true
	case "bytes.Equal":
		x, y := args[0].(*SliceV), args[1].(*SliceV)
		if x.len != y.len {
			return b.Bool(false), true
		}
		cs := make([]*Term, x.len)
		for i := 0; i < x.len; i++ {
			cs[i] = b.Eq(e.termOf(x.arr.elems[x.off+i].v), e.termOf(y.arr.elems[y.off+i].v))
		}
		return b.BAnd(cs...), true
	case "crypto/subtle.ConstantTimeCompare":
		x, y := args[0].(*SliceV), args[1].(*SliceV)
		if x.len != y.len {
			return b.ConstU(64, 0), true
		}
		cs := make([]*Term, x.len)
		for i := 0; i < x.len; i++ {
			cs[i] = b.Eq(e.termOf(x.arr.elems[x.off+i].v), e.termOf(y.arr.elems[y.off+i].v))
		}
		return b.Ite(b.BAnd(cs...), b.ConstU(64, 1), b.ConstU(64, 0)), true
	case "runtime.KeepAlive", "runtime.GC", "runtime.SetFinalizer":
		return nil, true
	case "math.Pow":
		x, y := args[0].(float64), args[1].(float64)
		return mathPow(x, y), true
	case "math.Log2", "math.Ceil", "math.Floor", "math.Sqrt", "math.Log":
		return mathUnary(fn.Name(), args[0].(float64)), true
	case "errors.New":
		return e.newError(e.strDesc(args[0])), true
	case "fmt.Errorf":
		return e.newError(e.strDesc(args[0])), true
	case "fmt.Sprintf", "fmt.Sprint":
		return e.strConst("<formatted>"), true
	case "fmt.Println", "fmt.Printf", "fmt.Print", "log.Printf", "log.Println":
		return TupleV{e.b.ConstU(64, 0), &IfaceV{}}, true
	case "errors.Is":
		return e.valueEq(args[0], args[1]), true
	case "(*sync.Mutex).Lock", "(*sync.RWMutex).Lock", "(*sync.RWMutex).RLock":
		if e.il != nil {
			e.ilLock(e.nonNil(args[0]).alts[0].cell)
		}
		return nil, true
	case "(*sync.Mutex).Unlock", "(*sync.RWMutex).Unlock", "(*sync.RWMutex).RUnlock":
		if e.il != nil {
			e.ilUnlock(e.nonNil(args[0]).alts[0].cell)
		}
		return nil, true
	case "(*sync.Pool).Put":
		return nil, true
	case "(*sync.Pool).Get":
		// no pooling: every Get allocates through New (or yields nil)
		pc := e.nonNil(args[0]).alts[0].cell
		st, _ := pc.typ.Underlying().(*types.Struct)
		for i := 0; st != nil && i < st.NumFields(); i++ {
			if st.Field(i).Name() == "New" {
				if fv, ok := e.loadCell(pc.elems[i]).(*FuncV); ok && (fv.fn != nil || fv.builtin != "") {
					return e.callValue(fv, nil, nil), true
				}
			}
		}
		return &IfaceV{}, true
	case "(*sync.Once).Do":
		// run f if the once's done flag is unset; under zzInterleave the once is a lock while f runs
		// and observing "done" is an acquire
		p := e.nonNil(args[0])
		c := p.alts[0].cell
		done := c.elems[0] // done atomic.Uint32 / uint32 depending on version
		leaf := done
		for leaf.elems != nil {
			leaf = leaf.elems[len(leaf.elems)-1]
		}
		if t, ok := leaf.v.(*Term); ok && t.isZero() {
			e.ilLock(c)
			e.callValue(args[1], nil, nil)
			leaf.v = e.b.ConstU(int(t.S), 1)
			e.ilUnlock(c)
		} else {
			e.ilAcquire(c)
		}
		return nil, true
	}
	if v, ok := e.modelCall(fn, full, args); ok {
		return v, true
	}
	return nil, false
}

func (e *Exec) strDesc(v Value) string {
	if s, ok := v.(*StrV); ok {
		if c, ok := s.concrete(); ok {
			return c
		}
	}
	return "<symbolic>"
}

func (e *Exec) newError(msg string) Value {
	e.opaqueN++
	return &IfaceV{typ: errorStringType, v: &OpaqueV{kind: "error", data: msg, id: e.opaqueN}}
}

var errorStringType types.Type = types.NewNamed(types.NewTypeName(0, nil, "zzError", nil), types.NewStruct(nil, nil), nil)

func (e *Exec) opaqueMethod(name string, args []Value) Value {
	switch name {
	case "error.Error":
		return e.strConst(args[0].(*OpaqueV).data.(string))
	}
	if v, ok := e.modelOpaqueMethod(name, args); ok {
		return v
	}
	e.unsupported("method %s on model object", name)
	return nil
}
