package main

// SMT back ends: BV printer, LIA ("carry equation") translator, solver processes.

import (
	"bufio"
	"fmt"
	"io"
	"math/big"
	"os/exec"
	"sort"
	"strings"
	"sync"
	"time"
)

func sortStr(s Sort) string {
	switch {
	case s > 0:
		return fmt.Sprintf("(_ BitVec %d)", int(s))
	case s == SBool:
		return "Bool"
	case s == SInt:
		return "Int"
	default:
		return "Real"
	}
}

func bvLit(w int, k *big.Int) string {
	if w%4 == 0 {
		return fmt.Sprintf("#x%0*s", w/4, k.Text(16))
	}
	return fmt.Sprintf("#b%0*s", w, k.Text(2))
}

func intLit(k *big.Int) string {
	if k.Sign() < 0 {
		return "(- " + new(big.Int).Neg(k).String() + ")"
	}
	return k.String()
}

func smtName(n string) string { return "|" + n + "|" }

// ---------------------------------------------------------------- BV printer

type bvPrinter struct {
	b     *Builder
	sb    strings.Builder
	done  map[int]bool
	nodes int
}

func (p *bvPrinter) ref(t *Term) string {
	switch t.Op {
	case OConst:
		switch {
		case t.S > 0:
			return bvLit(int(t.S), t.K)
		case t.S == SBool:
			if t.K.Sign() != 0 {
				return "true"
			}
			return "false"
		case t.S == SInt:
			return intLit(t.K)
		default:
			if t.K.Sign() < 0 {
				return "(- " + new(big.Int).Neg(t.K).String() + ".0)"
			}
			return t.K.String() + ".0"
		}
	case OVar:
		return smtName(t.Name)
	}
	return fmt.Sprintf("t%d", t.ID)
}

func (p *bvPrinter) define(t *Term) {
	// iterative post-order
	type fr struct {
		t *Term
		i int
	}
	st := []fr{{t, 0}}
	for len(st) > 0 {
		f := &st[len(st)-1]
		if p.done[f.t.ID] {
			st = st[:len(st)-1]
			continue
		}
		if f.i < len(f.t.Args) {
			a := f.t.Args[f.i]
			f.i++
			if !p.done[a.ID] {
				st = append(st, fr{a, 0})
			}
			continue
		}
		p.emit(f.t)
		p.done[f.t.ID] = true
		st = st[:len(st)-1]
	}
}

func (p *bvPrinter) emit(t *Term) {
	p.nodes++
	switch t.Op {
	case OConst:
		return
	case OVar:
		fmt.Fprintf(&p.sb, "(declare-const %s %s)\n", smtName(t.Name), sortStr(t.S))
		return
	}
	var body string
	args := make([]string, len(t.Args))
	for i, a := range t.Args {
		args[i] = p.ref(a)
	}
	j := strings.Join(args, " ")
	switch t.Op {
	case OExtract:
		body = fmt.Sprintf("((_ extract %d %d) %s)", t.P0, t.P1, j)
	case OZExt:
		body = fmt.Sprintf("((_ zero_extend %d) %s)", int(t.S-t.Args[0].S), j)
	case OSExt:
		body = fmt.Sprintf("((_ sign_extend %d) %s)", int(t.S-t.Args[0].S), j)
	case OUF:
		body = fmt.Sprintf("(%s %s)", smtName(t.Name), j)
	case OBv2Int:
		body = fmt.Sprintf("(bv2nat %s)", j)
	case OSInt:
		body = fmt.Sprintf("(ite (bvslt %s %s) (- (bv2nat %s) %s) (bv2nat %s))", j, bvLit(int(t.Args[0].S), bigZero), j, pow2(int(t.Args[0].S)).String(), j)
	case OAdd, OSub, OMul:
		if t.S > 0 {
			body = fmt.Sprintf("(%s %s)", opNames[t.Op], j)
		} else {
			body = fmt.Sprintf("(%s %s)", map[Op]string{OAdd: "+", OSub: "-", OMul: "*"}[t.Op], j)
		}
	case OEq:
		body = fmt.Sprintf("(= %s)", j)
	case OAddC:
		body = fmt.Sprintf("(bvadd (bvadd ((_ zero_extend 1) %s) ((_ zero_extend 1) %s)) ((_ zero_extend 1) %s))", args[0], args[1], args[2])
	case OSubB:
		body = fmt.Sprintf("(bvsub (bvsub ((_ zero_extend 1) %s) ((_ zero_extend 1) %s)) ((_ zero_extend 1) %s))", args[0], args[1], args[2])
	default:
		n, ok := opNames[t.Op]
		if !ok {
			panic(fmt.Sprintf("bvPrinter: op %d", t.Op))
		}
		body = fmt.Sprintf("(%s %s)", n, j)
	}
	fmt.Fprintf(&p.sb, "(define-fun t%d () %s %s)\n", t.ID, sortStr(t.S), body)
}

// PrintBV renders a self-contained script asserting all of `asserts`.
func PrintBV(b *Builder, asserts []*Term) (string, int) {
	p := &bvPrinter{b: b, done: map[int]bool{}}
	used := map[string]bool{}
	var collect func(t *Term, seen map[int]bool)
	collect = func(t *Term, seen map[int]bool) {
		if seen[t.ID] {
			return
		}
		seen[t.ID] = true
		if t.Op == OUF {
			used[t.Name] = true
		}
		for _, a := range t.Args {
			collect(a, seen)
		}
	}
	seen := map[int]bool{}
	for _, a := range asserts {
		collect(a, seen)
	}
	names := make([]string, 0, len(used))
	for n := range used {
		names = append(names, n)
	}
	sort.Strings(names)
	for _, n := range names {
		sig := b.UFs[n]
		as := make([]string, len(sig.Args))
		for i, s := range sig.Args {
			as[i] = sortStr(s)
		}
		fmt.Fprintf(&p.sb, "(declare-fun %s (%s) %s)\n", smtName(n), strings.Join(as, " "), sortStr(sig.Ret))
	}
	for _, a := range asserts {
		p.define(a)
	}
	for _, a := range asserts {
		fmt.Fprintf(&p.sb, "(assert %s)\n", p.ref(a))
	}
	return p.sb.String(), p.nodes
}

// ---------------------------------------------------------------- LIA translator

type liaErr struct{ msg string }

type liaTr struct {
	b       *Builder
	sb      strings.Builder // declarations + constraints
	memo    map[int]string
	cuts    map[int]map[int]bool
	fields  map[int][]liaField
	nfresh  int
	nvars   int
	prodVar map[int]string
	basePr  map[[2]int]string
	ufDecl  map[string]bool
	pre     map[int][]liaField // natural field split of AddC/SubB results
	nonlin  bool
	hasReal bool
	lz      map[int]*lazyVal
	sgn     map[int]string
	nExt    map[int]int
}

// lazyVal: an integer expression congruent to the term's value modulo 2^w, with an interval.
type lazyVal struct {
	expr   string
	lo, hi *big.Int
}

type liaField struct {
	lo, hi int // bit range [lo,hi)
	name   string
}

func (l *liaTr) fail(f string, a ...interface{}) { panic(liaErr{fmt.Sprintf(f, a...)}) }

func (l *liaTr) fresh(prefix string, hi *big.Int) string {
	l.nfresh++
	n := fmt.Sprintf("%s_%d", prefix, l.nfresh)
	fmt.Fprintf(&l.sb, "(declare-const %s Int)\n(assert (and (<= 0 %s) (<= %s %s)))\n", n, n, n, hi.String())
	return n
}

func (l *liaTr) ub(t *Term) *big.Int { return l.b.UB(t) }

// collect cut points
func (l *liaTr) scan(t *Term, seen map[int]bool) {
	if seen[t.ID] {
		return
	}
	seen[t.ID] = true
	addCut := func(x *Term, ps ...int) {
		m := l.cuts[x.ID]
		if m == nil {
			m = map[int]bool{}
			l.cuts[x.ID] = m
		}
		for _, p := range ps {
			m[p] = true
		}
	}
	switch t.Op {
	case OExtract:
		addCut(t.Args[0], t.P1, t.P0+1)
		l.nExt[t.Args[0].ID]++
	case OAnd:
		if t.Args[1].IsConst() {
			for _, r := range bitRuns(t.Args[1].K) {
				addCut(t.Args[0], r[0], r[1])
			}
		}
	}
	for _, a := range t.Args {
		l.scan(a, seen)
	}
}

// bitRuns returns the maximal runs [lo,hi) of one bits.
func bitRuns(k *big.Int) [][2]int {
	var out [][2]int
	n := k.BitLen()
	i := 0
	for i < n {
		if k.Bit(i) == 0 {
			i++
			continue
		}
		j := i
		for j < n && k.Bit(j) == 1 {
			j++
		}
		out = append(out, [2]int{i, j})
		i = j
	}
	return out
}

func (l *liaTr) partition(x *Term) []liaField {
	if f, ok := l.fields[x.ID]; ok {
		return f
	}
	ix := l.I(x)
	if pf, ok := l.pre[x.ID]; ok {
		// cuts must coincide with the natural split
		okCuts := true
		for p := range l.cuts[x.ID] {
			if p > 0 && p < pf[len(pf)-1].hi && p != pf[0].hi {
				okCuts = false
			}
		}
		if okCuts {
			l.fields[x.ID] = pf
			return pf
		}
	}
	eff := l.ub(x).BitLen()
	ps := []int{0}
	for p := range l.cuts[x.ID] {
		if p > 0 && p < eff {
			ps = append(ps, p)
		}
	}
	sort.Ints(ps)
	ps = append(ps, eff)
	var fs []liaField
	if len(ps) == 2 {
		fs = []liaField{{0, eff, ix}}
	} else {
		var sum []string
		for i := 0; i+1 < len(ps); i++ {
			lo, hi := ps[i], ps[i+1]
			if hi == lo {
				continue
			}
			n := l.fresh("f", maskW(hi-lo))
			fs = append(fs, liaField{lo, hi, n})
			if lo == 0 {
				sum = append(sum, n)
			} else {
				sum = append(sum, fmt.Sprintf("(* %s %s)", pow2(lo).String(), n))
			}
		}
		fmt.Fprintf(&l.sb, "(assert (= %s (+ %s)))\n", ix, strings.Join(sum, " "))
	}
	l.fields[x.ID] = fs
	return fs
}

// bits [lo,hi) of x as an Int expression (value shifted down by lo)
func (l *liaTr) bitsOf(x *Term, lo, hi int) string {
	fs := l.partition(x)
	eff := l.ub(x).BitLen()
	if hi > eff {
		hi = eff
	}
	if lo >= hi {
		return "0"
	}
	var sum []string
	for _, f := range fs {
		if f.hi <= lo || f.lo >= hi {
			continue
		}
		if f.lo < lo || f.hi > hi {
			l.fail("partition misaligned for t%d [%d,%d) field [%d,%d)", x.ID, lo, hi, f.lo, f.hi)
		}
		if f.lo == lo {
			sum = append(sum, f.name)
		} else {
			sum = append(sum, fmt.Sprintf("(* %s %s)", pow2(f.lo-lo).String(), f.name))
		}
	}
	if len(sum) == 0 {
		return "0"
	}
	if len(sum) == 1 {
		return sum[0]
	}
	return "(+ " + strings.Join(sum, " ") + ")"
}

// prodExpr returns an Int expression equal to the mathematical product of the unsigned values of a
// and b.  Operands of the shape "low word of a carry-chain addition" are expanded by distributivity
// ((x+y+c-2^w*cy)*b = x*b+y*b+c*b-2^w*cy*b), 1-bit operands become ite, constants stay linear; what
// remains is one bounded variable per unordered pair of base operands, so that a squaring routine
// that multiplies by 2*x_i (mod 2^64) is related to the products x_i*x_j of its specification.
func (l *liaTr) prodExpr(a, b *Term, depth int) string {
	for a.Op == OZExt {
		a = a.Args[0]
	}
	for b.Op == OZExt {
		b = b.Args[0]
	}
	if a.IsConst() {
		if a.K.Sign() == 0 {
			return "0"
		}
		return fmt.Sprintf("(* %s %s)", a.K.String(), l.I(b))
	}
	if b.IsConst() {
		return l.prodExpr(b, a, depth)
	}
	if l.ub(a).Cmp(bigOne) <= 0 {
		return fmt.Sprintf("(ite (= %s 1) %s 0)", l.I(a), l.I(b))
	}
	if l.ub(b).Cmp(bigOne) <= 0 {
		return fmt.Sprintf("(ite (= %s 1) %s 0)", l.I(b), l.I(a))
	}
	if depth < 6 {
		for pass := 0; pass < 2; pass++ {
			if a.Op == OExtract && a.P1 == 0 && a.Args[0].Op == OAddC && a.P0+1 == int(a.Args[0].S)-1 {
				ac := a.Args[0]
				l.I(ac)
				parts := []string{l.prodExpr(ac.Args[0], b, depth+1), l.prodExpr(ac.Args[1], b, depth+1), l.prodExpr(ac.Args[2], b, depth+1)}
				e := "(+ " + strings.Join(parts, " ") + ")"
				if pre, ok := l.pre[ac.ID]; ok && len(pre) == 2 {
					cy := pre[1].name
					xw := pre[1].lo
					cmax := new(big.Int).Add(l.ub(ac.Args[0]), l.ub(ac.Args[1]))
					cmax.Add(cmax, l.ub(ac.Args[2]))
					cmax.Rsh(cmax, uint(xw))
					ib := l.I(b)
					var cyb string
					switch {
					case cmax.Cmp(bigOne) <= 0:
						cyb = fmt.Sprintf("(ite (= %s 1) %s 0)", cy, ib)
					case cmax.Cmp(big.NewInt(2)) <= 0:
						cyb = fmt.Sprintf("(ite (= %s 0) 0 (ite (= %s 1) %s (* 2 %s)))", cy, cy, ib, ib)
					default:
						l.fail("carry of AddC above 2 in product distribution")
					}
					e = fmt.Sprintf("(- %s (* %s %s))", e, pow2(xw).String(), cyb)
				}
				n := l.fresh("pd", new(big.Int).Mul(l.ub(a), l.ub(b)))
				fmt.Fprintf(&l.sb, "(assert (= %s %s))\n", n, e)
				return n
			}
			a, b = b, a
		}
	}
	l.I(a)
	l.I(b)
	k := [2]int{a.ID, b.ID}
	if k[0] > k[1] {
		k[0], k[1] = k[1], k[0]
	}
	if l.basePr == nil {
		l.basePr = map[[2]int]string{}
	}
	if v, ok := l.basePr[k]; ok {
		return v
	}
	pv := l.fresh("M", new(big.Int).Mul(l.ub(a), l.ub(b)))
	l.basePr[k] = pv
	return pv
}

func (l *liaTr) wrapped(t *Term, exact string, ubExact *big.Int, mayNeg bool, negBound *big.Int) string {
	w := int(t.S)
	m := pow2(w)
	if !mayNeg && ubExact.Cmp(m) < 0 {
		return exact
	}
	r := l.fresh("r", maskW(w))
	if !mayNeg {
		kmax := new(big.Int).Div(ubExact, m)
		k := l.fresh("k", kmax)
		fmt.Fprintf(&l.sb, "(assert (= %s (+ %s (* %s %s))))\n", exact, r, m.String(), k)
	} else {
		// exact in [-negBound, ubExact]
		kneg := new(big.Int).Div(new(big.Int).Add(negBound, maskW(w)), m)
		kpos := new(big.Int).Div(ubExact, m)
		k := l.fresh("k", new(big.Int).Add(kneg, kpos))
		// exact = r + m*(k - kneg)
		fmt.Fprintf(&l.sb, "(assert (= %s (+ %s (* %s (- %s %s)))))\n", exact, r, m.String(), k, kneg.String())
	}
	return r
}

// maskCond recognises all-ones/zero mask terms; returns the Bool condition (as SMT text).
func (l *liaTr) maskCond(t *Term) (string, bool) {
	w := int(t.S)
	switch t.Op {
	case ONeg:
		if l.ub(t.Args[0]).Cmp(bigOne) <= 0 {
			return fmt.Sprintf("(= %s 1)", l.I(t.Args[0])), true
		}
	case OSExt:
		if int(t.Args[0].S) == 1 {
			return fmt.Sprintf("(= %s 1)", l.I(t.Args[0])), true
		}
	case OAShr:
		if t.Args[1].IsConst() && t.Args[1].K.Cmp(big.NewInt(int64(w-1))) >= 0 {
			return fmt.Sprintf("(>= %s %s)", l.I(t.Args[0]), pow2(w-1).String()), true
		}
	case OIte:
		if t.Args[1].isOnes() && t.Args[2].isZero() {
			return l.B(t.Args[0]), true
		}
		if t.Args[2].isOnes() && t.Args[1].isZero() {
			return "(not " + l.B(t.Args[0]) + ")", true
		}
	case ONot:
		if c, ok := l.maskCond(t.Args[0]); ok {
			return "(not " + c + ")", true
		}
	}
	return "", false
}

func (l *liaTr) signedI(t *Term) string {
	w := int(t.S)
	ix := l.I(t)
	if s, ok := l.sgn[t.ID]; ok {
		return s
	}
	if t.Op == OSExt {
		return l.signedI(t.Args[0])
	}
	if l.ub(t).Bit(w-1) == 0 {
		return ix
	}
	return fmt.Sprintf("(ite (>= %s %s) (- %s %s) %s)", ix, pow2(w-1).String(), ix, pow2(w).String(), ix)
}

// I: integer value expression of a BV (unsigned) or Int/Real term.
func (l *liaTr) I(t *Term) string {
	if s, ok := l.memo[t.ID]; ok {
		return s
	}
	s := l.i(t)
	// name big expressions to keep the script linear in DAG size
	if len(s) > 40 && t.S != SReal {
		n := fmt.Sprintf("e%d", t.ID)
		fmt.Fprintf(&l.sb, "(define-fun %s () Int %s)\n", n, s)
		s = n
	} else if len(s) > 40 {
		n := fmt.Sprintf("e%d", t.ID)
		fmt.Fprintf(&l.sb, "(define-fun %s () Real %s)\n", n, s)
		s = n
	}
	l.memo[t.ID] = s
	return s
}

func (l *liaTr) i(t *Term) string {
	w := int(t.S)
	switch t.Op {
	case OConst:
		if t.S == SReal {
			if t.K.Sign() < 0 {
				return "(- " + new(big.Int).Neg(t.K).String() + ".0)"
			}
			return t.K.String() + ".0"
		}
		return intLit(t.K)
	case OVar:
		if t.S == SBool {
			l.fail("bool var as int")
		}
		n := smtName(t.Name)
		l.nvars++
		if t.S == SReal {
			l.hasReal = true
		}
		if t.S > 0 && l.b.SignedVars[t.Name] {
			fmt.Fprintf(&l.sb, "(declare-const %s Int)\n(assert (and (<= (- %s) %s) (<= %s %s)))\n", n, pow2(w-1).String(), n, n, maskW(w-1).String())
			l.lz[t.ID] = &lazyVal{n, new(big.Int).Neg(pow2(w - 1)), maskW(w - 1)}
			l.sgn[t.ID] = n
			return fmt.Sprintf("(ite (< %s 0) (+ %s %s) %s)", n, n, pow2(w).String(), n)
		}
		if t.S > 0 {
			fmt.Fprintf(&l.sb, "(declare-const %s Int)\n(assert (and (<= 0 %s) (<= %s %s)))\n", n, n, n, maskW(w).String())
		} else {
			fmt.Fprintf(&l.sb, "(declare-const %s %s)\n", n, sortStr(t.S))
		}
		return n
	case OUF:
		args := make([]string, len(t.Args))
		as := make([]string, len(t.Args))
		for i, a := range t.Args {
			if a.S == SBool {
				args[i] = l.B(a)
				as[i] = "Bool"
			} else {
				args[i] = l.I(a)
				as[i] = "Int"
				if a.S == SReal {
					as[i] = "Real"
				}
			}
		}
		if !l.ufDecl[t.Name] {
			l.ufDecl[t.Name] = true
			rs := "Int"
			if t.S == SReal {
				rs = "Real"
			}
			fmt.Fprintf(&l.sb, "(declare-fun %s (%s) %s)\n", smtName(t.Name), strings.Join(as, " "), rs)
		}
		e := fmt.Sprintf("(%s %s)", smtName(t.Name), strings.Join(args, " "))
		if t.S > 0 {
			fmt.Fprintf(&l.sb, "(assert (and (<= 0 %s) (<= %s %s)))\n", e, e, maskW(w).String())
		}
		return e
	}
	if t.S <= 0 { // Int / Real arithmetic
		switch t.Op {
		case OAdd, OSub, OMul:
			op := map[Op]string{OAdd: "+", OSub: "-", OMul: "*"}[t.Op]
			if t.Op == OMul && !t.Args[0].IsConst() && !t.Args[1].IsConst() {
				l.nonlin = true
			}
			if t.S == SReal {
				l.hasReal = true
			}
			return fmt.Sprintf("(%s %s %s)", op, l.I(t.Args[0]), l.I(t.Args[1]))
		case OIMod:
			return fmt.Sprintf("(mod %s %s)", l.I(t.Args[0]), l.I(t.Args[1]))
		case OIDiv:
			return fmt.Sprintf("(div %s %s)", l.I(t.Args[0]), l.I(t.Args[1]))
		case ORDiv:
			l.nonlin, l.hasReal = true, true
			return fmt.Sprintf("(/ %s %s)", l.I(t.Args[0]), l.I(t.Args[1]))
		case OBv2Int:
			return l.I(t.Args[0])
		case OSInt:
			return l.signedI(t.Args[0])
		case OIte:
			return fmt.Sprintf("(ite %s %s %s)", l.B(t.Args[0]), l.I(t.Args[1]), l.I(t.Args[2]))
		}
		l.fail("int op %d", t.Op)
	}
	switch t.Op {
	case OZExt:
		return l.I(t.Args[0])
	case OSExt:
		x := t.Args[0]
		xw := int(x.S)
		ix := l.I(x)
		return fmt.Sprintf("(ite (>= %s %s) (+ %s %s) %s)", ix, pow2(xw-1).String(), ix, new(big.Int).Sub(pow2(w), pow2(xw)).String(), ix)
	case OConcat:
		return fmt.Sprintf("(+ (* %s %s) %s)", pow2(int(t.Args[1].S)).String(), l.I(t.Args[0]), l.I(t.Args[1]))
	case OExtract:
		if t.P1 == 0 && l.ringOp(t.Args[0]) && l.onlyCut(t.Args[0], t.P0+1) {
			if _, done := l.memo[t.Args[0].ID]; !done {
				return l.canon(t)
			}
		}
		return l.bitsOf(t.Args[0], t.P1, t.P0+1)
	case OAddC, OSubB:
		x, y, c := t.Args[0], t.Args[1], t.Args[2]
		xw := int(x.S)
		if t.Op == OAddC {
			tot := new(big.Int).Add(l.ub(x), l.ub(y))
			tot.Add(tot, l.ub(c))
			e := fmt.Sprintf("(+ %s %s %s)", l.I(x), l.I(y), l.I(c))
			if tot.Cmp(maskW(xw)) <= 0 {
				return e
			}
			lo := l.fresh("lo", maskW(xw))
			cy := l.fresh("cy", new(big.Int).Rsh(tot, uint(xw)))
			fmt.Fprintf(&l.sb, "(assert (= %s (+ %s (* %s %s))))\n", e, lo, pow2(xw).String(), cy)
			l.pre[t.ID] = []liaField{{0, xw, lo}, {xw, xw + 1, cy}}
			return fmt.Sprintf("(+ %s (* %s %s))", lo, pow2(xw).String(), cy)
		}
		if l.ub(c).Cmp(bigOne) > 0 {
			l.fail("SubB with borrow-in > 1")
		}
		d := l.fresh("d", maskW(xw))
		bo := l.fresh("bo", bigOne)
		fmt.Fprintf(&l.sb, "(assert (= (- %s %s %s) (- %s (* %s %s))))\n", l.I(x), l.I(y), l.I(c), d, pow2(xw).String(), bo)
		l.pre[t.ID] = []liaField{{0, xw, d}, {xw, xw + 1, bo}}
		return fmt.Sprintf("(+ %s (* %s %s))", d, pow2(xw).String(), bo)
	case OAdd, OSub, ONeg:
		return l.canon(t)
	case ONot:
		return fmt.Sprintf("(- %s %s)", maskW(w).String(), l.I(t.Args[0]))
	case OMul:
		x, y := t.Args[0], t.Args[1]
		ubp := new(big.Int).Mul(l.ub(x), l.ub(y))
		var e string
		if y.IsConst() {
			return l.canon(t)
		} else {
			// symbolic product: distributed over carry-chain sums, bits and constants down to one
			// bounded variable per pair of base operands
			e = l.prodExpr(x, y, 0)
			l.prodVar[t.ID] = e
		}
		return l.wrapped(t, e, ubp, false, nil)
	case OAnd:
		x, y := t.Args[0], t.Args[1]
		if y.IsConst() {
			var sum []string
			for _, r := range bitRuns(y.K) {
				s := l.bitsOf(x, r[0], r[1])
				if s == "0" {
					continue
				}
				if r[0] == 0 {
					sum = append(sum, s)
				} else {
					sum = append(sum, fmt.Sprintf("(* %s %s)", pow2(r[0]).String(), s))
				}
			}
			if len(sum) == 0 {
				return "0"
			}
			if len(sum) == 1 {
				return sum[0]
			}
			return "(+ " + strings.Join(sum, " ") + ")"
		}
		if c, ok := l.maskCond(x); ok {
			return fmt.Sprintf("(ite %s %s 0)", c, l.I(y))
		}
		if c, ok := l.maskCond(y); ok {
			return fmt.Sprintf("(ite %s %s 0)", c, l.I(x))
		}
		if l.ub(x).Cmp(bigOne) <= 0 && l.ub(y).Cmp(bigOne) <= 0 {
			return fmt.Sprintf("(ite (and (= %s 1) (= %s 1)) 1 0)", l.I(x), l.I(y))
		}
		l.fail("and of two symbolic terms (t%d)", t.ID)
	case OOr, OXor:
		x, y := t.Args[0], t.Args[1]
		if new(big.Int).And(l.ub(x), l.ub(y)).Sign() == 0 {
			return fmt.Sprintf("(+ %s %s)", l.I(x), l.I(y))
		}
		if l.ub(x).Cmp(bigOne) <= 0 && l.ub(y).Cmp(bigOne) <= 0 {
			if t.Op == OOr {
				return fmt.Sprintf("(ite (or (= %s 1) (= %s 1)) 1 0)", l.I(x), l.I(y))
			}
			return fmt.Sprintf("(ite (= %s %s) 0 1)", l.I(x), l.I(y))
		}
		if t.Op == OXor {
			// x ^ mask(c) = ite(c, ~x, x)
			if c, ok := l.maskCond(y); ok {
				return fmt.Sprintf("(ite %s (- %s %s) %s)", c, maskW(w).String(), l.I(x), l.I(x))
			}
			if c, ok := l.maskCond(x); ok {
				return fmt.Sprintf("(ite %s (- %s %s) %s)", c, maskW(w).String(), l.I(y), l.I(y))
			}
		}
		l.fail("or/xor of overlapping symbolic terms (t%d)", t.ID)
	case OIte:
		return fmt.Sprintf("(ite %s %s %s)", l.B(t.Args[0]), l.I(t.Args[1]), l.I(t.Args[2]))
	case OAShr:
		if c, ok := l.maskCond(t); ok {
			return fmt.Sprintf("(ite %s %s 0)", c, maskW(w).String())
		}
		if t.Args[1].IsConst() {
			s := int(t.Args[1].K.Int64())
			// floor(signed(x) / 2^s) mod 2^w
			q := l.fresh("q", maskW(w))
			sx := l.signedI(t.Args[0])
			rr := l.fresh("ar", maskW(s))
			// signed(x) = qs*2^s + rr, q = qs mod 2^w  (qs in [-2^(w-1-s), 2^(w-1-s)) )
			fmt.Fprintf(&l.sb, "(assert (= %s (+ (* %s (ite (>= %s %s) (- %s %s) %s)) %s)))\n", sx, pow2(s).String(), q, pow2(w-1).String(), q, pow2(w).String(), q, rr)
			return q
		}
		l.fail("ashr by symbolic amount")
	case OUDiv, OURem:
		x, y := t.Args[0], t.Args[1]
		if !y.IsConst() || y.K.Sign() == 0 {
			l.fail("division by non-constant")
		}
		q := l.fresh("dq", new(big.Int).Div(l.ub(x), y.K))
		r := l.fresh("dr", new(big.Int).Sub(y.K, bigOne))
		fmt.Fprintf(&l.sb, "(assert (= %s (+ (* %s %s) %s)))\n", l.I(x), y.K.String(), q, r)
		if t.Op == OUDiv {
			return q
		}
		return r
	case OShl, OLShr:
		l.fail("shift by symbolic amount (t%d)", t.ID)
	}
	l.fail("LIA: unsupported op %d (t%d)", t.Op, t.ID)
	return ""
}

func (l *liaTr) cutAdd(x *Term, p int) {
	m := l.cuts[x.ID]
	if m == nil {
		m = map[int]bool{}
		l.cuts[x.ID] = m
	}
	m[p] = true
}

// B: Bool term as SMT text
func (l *liaTr) B(t *Term) string {
	if s, ok := l.memo[t.ID]; ok {
		return s
	}
	s := l.bb(t)
	if len(s) > 40 {
		n := fmt.Sprintf("b%d", t.ID)
		fmt.Fprintf(&l.sb, "(define-fun %s () Bool %s)\n", n, s)
		s = n
	}
	l.memo[t.ID] = s
	return s
}

func (l *liaTr) bb(t *Term) string {
	switch t.Op {
	case OConst:
		if t.K.Sign() != 0 {
			return "true"
		}
		return "false"
	case OVar:
		n := smtName(t.Name)
		fmt.Fprintf(&l.sb, "(declare-const %s Bool)\n", n)
		return n
	case OEq:
		if t.Args[0].S == SBool {
			return fmt.Sprintf("(= %s %s)", l.B(t.Args[0]), l.B(t.Args[1]))
		}
		return fmt.Sprintf("(= %s %s)", l.I(t.Args[0]), l.I(t.Args[1]))
	case OUlt, OILt:
		return fmt.Sprintf("(< %s %s)", l.I(t.Args[0]), l.I(t.Args[1]))
	case OUle, OILe:
		return fmt.Sprintf("(<= %s %s)", l.I(t.Args[0]), l.I(t.Args[1]))
	case OSlt:
		return fmt.Sprintf("(< %s %s)", l.signedI(t.Args[0]), l.signedI(t.Args[1]))
	case OSle:
		return fmt.Sprintf("(<= %s %s)", l.signedI(t.Args[0]), l.signedI(t.Args[1]))
	case OBAnd, OBOr:
		as := make([]string, len(t.Args))
		for i, a := range t.Args {
			as[i] = l.B(a)
		}
		return fmt.Sprintf("(%s %s)", opNames[t.Op], strings.Join(as, " "))
	case OBNot:
		return "(not " + l.B(t.Args[0]) + ")"
	case OIte:
		return fmt.Sprintf("(ite %s %s %s)", l.B(t.Args[0]), l.B(t.Args[1]), l.B(t.Args[2]))
	case OUF:
		l.fail("bool UF in LIA")
	}
	l.fail("LIA bool: unsupported op %d", t.Op)
	return ""
}

// PrintLIA renders the assertions in integer arithmetic.  Returns error text when
// a term is not linearisable.
func PrintLIA(b *Builder, asserts []*Term) (script string, nodes int, err error) {
	l := &liaTr{b: b, memo: map[int]string{}, cuts: map[int]map[int]bool{}, fields: map[int][]liaField{}, prodVar: map[int]string{}, ufDecl: map[string]bool{}, pre: map[int][]liaField{}, lz: map[int]*lazyVal{}, sgn: map[int]string{}, nExt: map[int]int{}}
	defer func() {
		if r := recover(); r != nil {
			if le, ok := r.(liaErr); ok {
				err = fmt.Errorf("not linearisable: %s", le.msg)
				return
			}
			panic(r)
		}
	}()
	seen := map[int]bool{}
	for _, a := range asserts {
		l.scan(a, seen)
	}
	var as []string
	for _, a := range asserts {
		as = append(as, l.B(a))
	}
	for _, a := range as {
		fmt.Fprintf(&l.sb, "(assert %s)\n", a)
	}
	logic := "(set-logic QF_UFLIA)\n"
	if l.nonlin || l.hasReal {
		logic = ""
	}
	return logic + l.sb.String(), len(seen), nil
}

// ---------------------------------------------------------------- solver processes

type Solver struct {
	name string
	cmd  *exec.Cmd
	in   io.WriteCloser
	out  *bufio.Reader
	dead bool
	mu   sync.Mutex
}

var solverCmds = map[string][]string{
	"z3":    {"z3", "-in"},
	"z3new": {"z3-new", "-in"},
	"cvc5":  {"cvc5", "--incremental", "--lang=smt2", "--produce-models"},
}

func StartSolver(name string) (*Solver, error) {
	argv := solverCmds[name]
	cmd := exec.Command(argv[0], argv[1:]...)
	in, err := cmd.StdinPipe()
	if err != nil {
		return nil, err
	}
	out, err := cmd.StdoutPipe()
	if err != nil {
		return nil, err
	}
	cmd.Stderr = cmd.Stdout
	if err := cmd.Start(); err != nil {
		return nil, err
	}
	s := &Solver{name: name, cmd: cmd, in: in, out: bufio.NewReaderSize(out, 1<<20)}
	return s, nil
}

func (s *Solver) Close() {
	if s == nil {
		return
	}
	s.mu.Lock()
	defer s.mu.Unlock()
	if s.dead {
		return
	}
	s.dead = true
	s.in.Close()
	s.cmd.Process.Kill()
	s.cmd.Wait()
}

type SolveResult struct {
	Status string // sat | unsat | unknown | error
	Model  map[string]*big.Int
	Secs   float64
	Detail string
}

// readSexp reads one balanced s-expression or atom line.
func (s *Solver) readResponse(deadline time.Time) (string, error) {
	type res struct {
		s   string
		err error
	}
	ch := make(chan res, 1)
	go func() {
		var sb strings.Builder
		depth := 0
		started := false
		for {
			line, err := s.out.ReadString('\n')
			if err != nil {
				ch <- res{sb.String(), err}
				return
			}
			if strings.TrimSpace(line) == "" && !started {
				continue
			}
			started = true
			sb.WriteString(line)
			inStr := false
			for _, c := range line {
				switch {
				case c == '"' || c == '|':
					inStr = !inStr
				case inStr:
				case c == '(':
					depth++
				case c == ')':
					depth--
				}
			}
			if depth <= 0 {
				ch <- res{sb.String(), nil}
				return
			}
		}
	}()
	select {
	case r := <-ch:
		return r.s, r.err
	case <-time.After(time.Until(deadline)):
		return "", fmt.Errorf("timeout")
	}
}

// Check runs a self-contained script (after reset) and returns status and a model for `vars`.
func (s *Solver) Check(script string, vars []*Term, timeout time.Duration) SolveResult {
	t0 := time.Now()
	var sb strings.Builder
	sb.WriteString("(reset)\n")
	if s.name == "cvc5" {
		sb.WriteString("(set-logic ALL)\n")
		fmt.Fprintf(&sb, "(set-option :tlimit-per %d)\n", timeout.Milliseconds())
	} else {
		fmt.Fprintf(&sb, "(set-option :timeout %d)\n", timeout.Milliseconds())
	}
	sb.WriteString(script)
	sb.WriteString("(check-sat)\n")
	if _, err := io.WriteString(s.in, sb.String()); err != nil {
		s.dead = true
		return SolveResult{Status: "error", Detail: err.Error()}
	}
	resp, err := s.readResponse(t0.Add(timeout + 10*time.Second))
	if err != nil {
		s.Close()
		return SolveResult{Status: "unknown", Detail: "solver: " + err.Error(), Secs: time.Since(t0).Seconds()}
	}
	resp = strings.TrimSpace(resp)
	r := SolveResult{Secs: time.Since(t0).Seconds()}
	switch {
	case strings.Contains(resp, "(error"):
		r.Status = "error"
		r.Detail = resp
		// drain: errors may be followed by the check-sat answer
		s.Close()
		return r
	case resp == "sat":
		r.Status = "sat"
	case resp == "unsat":
		r.Status = "unsat"
	default:
		r.Status = "unknown"
		r.Detail = resp
		return r
	}
	if r.Status == "sat" && len(vars) > 0 {
		r.Model = map[string]*big.Int{}
		// request values in chunks
		const chunk = 200
		for i := 0; i < len(vars); i += chunk {
			j := i + chunk
			if j > len(vars) {
				j = len(vars)
			}
			var q strings.Builder
			q.WriteString("(get-value (")
			for _, v := range vars[i:j] {
				q.WriteString(smtName(v.Name))
				q.WriteByte(' ')
			}
			q.WriteString("))\n")
			io.WriteString(s.in, q.String())
			resp, err := s.readResponse(time.Now().Add(30 * time.Second))
			if err != nil || strings.Contains(resp, "(error") {
				r.Detail = "get-value failed: " + resp
				s.Close()
				return r
			}
			parseModel(resp, r.Model)
		}
	}
	return r
}

// parseModel parses ((|name| value) ...) responses.
func parseModel(resp string, m map[string]*big.Int) {
	toks := tokenize(resp)
	// pattern: ( name value ) where value may be nested like (- 5) or (_ bv5 8)
	i := 0
	var parseVal func() *big.Int
	parseVal = func() *big.Int {
		t := toks[i]
		i++
		if t == "(" {
			head := toks[i]
			i++
			var v *big.Int
			switch head {
			case "-":
				x := parseVal()
				v = new(big.Int).Neg(x)
			case "_":
				// (_ bvN w)
				n := toks[i]
				i += 2
				v, _ = new(big.Int).SetString(strings.TrimPrefix(n, "bv"), 10)
			case "/":
				x := parseVal()
				_ = parseVal()
				v = x // only integers expected; rationals truncated
			default:
				v = big.NewInt(0)
			}
			for toks[i] != ")" {
				i++
			}
			i++
			return v
		}
		switch {
		case strings.HasPrefix(t, "#x"):
			v, _ := new(big.Int).SetString(t[2:], 16)
			return v
		case strings.HasPrefix(t, "#b"):
			v, _ := new(big.Int).SetString(t[2:], 2)
			return v
		case t == "true":
			return big.NewInt(1)
		case t == "false":
			return big.NewInt(0)
		default:
			t = strings.TrimSuffix(t, ".0")
			v, ok := new(big.Int).SetString(t, 10)
			if !ok {
				return big.NewInt(0)
			}
			return v
		}
	}
	if len(toks) == 0 || toks[0] != "(" {
		return
	}
	i = 1
	for i < len(toks) && toks[i] == "(" {
		i++
		name := toks[i]
		i++
		name = strings.Trim(name, "|")
		v := parseVal()
		m[name] = v
		if i < len(toks) && toks[i] == ")" {
			i++
		}
	}
}

func tokenize(s string) []string {
	var toks []string
	i := 0
	for i < len(s) {
		c := s[i]
		switch {
		case c == ' ' || c == '\n' || c == '\t' || c == '\r':
			i++
		case c == '(' || c == ')':
			toks = append(toks, string(c))
			i++
		case c == '|':
			j := strings.IndexByte(s[i+1:], '|')
			toks = append(toks, s[i:i+j+2])
			i += j + 2
		default:
			j := i
			for j < len(s) && !strings.ContainsRune(" \n\t\r()", rune(s[j])) {
				j++
			}
			toks = append(toks, s[i:j])
			i = j
		}
	}
	return toks
}

func (l *liaTr) ringOp(t *Term) bool {
	switch t.Op {
	case OAdd, OSub, ONeg:
		return true
	case OMul:
		return t.Args[1].IsConst() || t.Args[0].IsConst()
	}
	return false
}

func (l *liaTr) onlyCut(x *Term, p int) bool {
	if l.nExt[x.ID] != 1 {
		return false
	}
	for c := range l.cuts[x.ID] {
		if c != p && c > 0 && c < int(x.S) {
			return false
		}
	}
	return true
}

// L: lazy value (congruent modulo 2^w), built without fresh variables through ring operations.
func (l *liaTr) L(t *Term) *lazyVal {
	if v, ok := l.lz[t.ID]; ok {
		return v
	}
	w := int(t.S)
	var v *lazyVal
	bin := func(op string, a, b *lazyVal) *lazyVal {
		r := &lazyVal{expr: fmt.Sprintf("(%s %s %s)", op, a.expr, b.expr)}
		if op == "+" {
			r.lo, r.hi = new(big.Int).Add(a.lo, b.lo), new(big.Int).Add(a.hi, b.hi)
		} else {
			r.lo, r.hi = new(big.Int).Sub(a.lo, b.hi), new(big.Int).Sub(a.hi, b.lo)
		}
		return r
	}
	switch {
	case t.Op == OConst:
		v = &lazyVal{intLit(t.K), t.K, t.K}
	case t.Op == OAdd:
		v = bin("+", l.L(t.Args[0]), l.L(t.Args[1]))
	case t.Op == OSub:
		v = bin("-", l.L(t.Args[0]), l.L(t.Args[1]))
	case t.Op == ONeg:
		a := l.L(t.Args[0])
		v = &lazyVal{fmt.Sprintf("(- %s)", a.expr), new(big.Int).Neg(a.hi), new(big.Int).Neg(a.lo)}
	case t.Op == OMul && (t.Args[1].IsConst() || t.Args[0].IsConst()):
		x, c := t.Args[0], t.Args[1]
		if x.IsConst() {
			x, c = c, x
		}
		k := c.K
		if k.Bit(w-1) == 1 && w <= 64 { // use the signed representative of the constant: smaller numbers
			k = new(big.Int).Sub(k, pow2(w))
		}
		a := l.L(x)
		lo, hi := new(big.Int).Mul(a.lo, k), new(big.Int).Mul(a.hi, k)
		if lo.Cmp(hi) > 0 {
			lo, hi = hi, lo
		}
		v = &lazyVal{fmt.Sprintf("(* %s %s)", intLit(k), a.expr), lo, hi}
	case t.Op == OExtract && t.P1 == 0 && l.ringOp(t.Args[0]) && l.onlyCut(t.Args[0], t.P0+1) && l.memo[t.Args[0].ID] == "":
		v = l.L(t.Args[0])
	case t.Op == OSExt:
		x := t.Args[0]
		xw := int(x.S)
		ix := l.I(x)
		if l.ub(x).Bit(xw-1) == 0 {
			v = &lazyVal{ix, big.NewInt(0), l.ub(x)}
		} else {
			v = &lazyVal{fmt.Sprintf("(ite (>= %s %s) (- %s %s) %s)", ix, pow2(xw-1).String(), ix, pow2(xw).String(), ix),
				new(big.Int).Neg(pow2(xw - 1)), maskW(xw - 1)}
		}
	default:
		ix := l.I(t)
		if pv, ok := l.lz[t.ID]; ok {
			return pv
		}
		v = &lazyVal{ix, big.NewInt(0), l.ub(t)}
	}
	if len(v.expr) > 60 {
		n := fmt.Sprintf("z%d", t.ID)
		fmt.Fprintf(&l.sb, "(define-fun %s () Int %s)\n", n, v.expr)
		v = &lazyVal{n, v.lo, v.hi}
	}
	l.lz[t.ID] = v
	return v
}

// canon: canonical value in [0,2^w) of a ring-operation term: one fresh pair (r,k) unless the
// lazy value provably lies in range already.
func (l *liaTr) canon(t *Term) string {
	w := int(t.S)
	var v *lazyVal
	if t.Op == OExtract { // low bits of a ring op
		v = l.L(t.Args[0])
	} else {
		delete(l.lz, t.ID)
		switch t.Op {
		case OAdd, OSub, ONeg, OMul:
			v = l.L(t)
			delete(l.lz, t.ID) // once canonical, consumers use the canonical variable
		}
	}
	m := pow2(w)
	if v.lo.Sign() >= 0 && v.hi.Cmp(m) < 0 {
		l.lz[t.ID] = v
		return v.expr
	}
	r := l.fresh("r", maskW(w))
	klo := new(big.Int).Div(v.lo, m) // floor division
	if v.lo.Sign() < 0 {
		klo = new(big.Int).Neg(new(big.Int).Div(new(big.Int).Add(new(big.Int).Neg(v.lo), maskW(w)), m))
	}
	khi := new(big.Int).Div(v.hi, m)
	if v.hi.Sign() < 0 {
		khi = new(big.Int).Neg(new(big.Int).Div(new(big.Int).Add(new(big.Int).Neg(v.hi), maskW(w)), m))
	}
	k := l.fresh("k", new(big.Int).Sub(khi, klo))
	fmt.Fprintf(&l.sb, "(assert (= %s (+ %s (* %s (+ %s %s)))))\n", v.expr, r, m.String(), k, intLit(klo))
	l.lz[t.ID] = &lazyVal{r, big.NewInt(0), l.ub(t)}
	return r
}
