package main

// Models of library primitives (hash transcripts, big.Int, environment).

import (
	"go/types"
	"math"

	"golang.org/x/tools/go/ssa"
)

func mathPow(x, y float64) float64 { return math.Pow(x, y) }
func mathUnary(name string, x float64) float64 {
	switch name {
	case "Log2":
		return math.Log2(x)
	case "Ceil":
		return math.Ceil(x)
	case "Floor":
		return math.Floor(x)
	case "Sqrt":
		return math.Sqrt(x)
	case "Log":
		return math.Log(x)
	}
	panic("mathUnary " + name)
}

func (e *Exec) modelZero(nt *types.Named) (Value, bool) {
	if nt.Obj().Name() == "zzW" {
		return e.b.IntConst(bigZero), true
	}
	if nt.Obj().Name() == "zzR" {
		return e.b.RealConst(bigZero), true
	}
	return nil, false
}

func (e *Exec) modelGlobal(g *ssa.Global, c *Cell) {}

func (e *Exec) modelCall(fn *ssa.Function, full string, args []Value) (Value, bool) {
	return nil, false
}

func (e *Exec) modelOpaqueMethod(name string, args []Value) (Value, bool) {
	return nil, false
}
