package main

import (
	"fmt"
	"go/types"
	"math/big"

	"golang.org/x/tools/go/ssa"
)

// Value is one of: *Term, *Ptr, *SliceV, *StructV, *ArrayV, *IfaceV, *FuncV,
// *StrV, *MapV, TupleV, float64, *OpaqueV
type Value interface{}

type PtrAlt struct {
	cond *Term
	cell *Cell
}
type Ptr struct{ alts []PtrAlt } // nil pointer: no alts

type SliceV struct {
	arr           *Cell // array cell; nil => nil slice
	off, len, cap int
}
type StructV struct{ f []Value }
type ArrayV struct{ e []Value }
type IfaceV struct {
	typ types.Type // nil => nil interface
	v   Value
}
type FuncV struct {
	fn      *ssa.Function
	bind    []Value
	builtin string
	recv    Value // bound method receiver (for intrinsic-bound closures)
}
type StrV struct{ bs []*Term }
type MapV struct {
	keys []Value
	vals []Value
	kt   types.Type
	vt   types.Type
}
type TupleV []Value

// OpaqueV: a model object (hash transcript, big.Int model, error, ...)
type OpaqueV struct {
	kind string
	data interface{}
	id   int
}

type Cell struct {
	typ   types.Type
	v     Value
	elems []*Cell
	par   *Cell
	pidx  int
	id    int
}

func isComposite(t types.Type) bool {
	switch t.Underlying().(type) {
	case *types.Struct, *types.Array:
		return true
	}
	return false
}

func (e *Exec) newCell(t types.Type) *Cell {
	e.cellN++
	c := &Cell{typ: t, id: e.cellN}
	if nt, ok := t.(*types.Named); ok {
		if z, ok := e.modelZero(nt); ok { // model types (zzW, zzR) are opaque leaves
			c.v = z
			return c
		}
	}
	switch u := t.Underlying().(type) {
	case *types.Struct:
		c.elems = make([]*Cell, u.NumFields())
		for i := range c.elems {
			c.elems[i] = e.newCell(u.Field(i).Type())
			c.elems[i].par, c.elems[i].pidx = c, i
		}
	case *types.Array:
		n := int(u.Len())
		c.elems = make([]*Cell, n)
		for i := range c.elems {
			c.elems[i] = e.newCell(u.Elem())
			c.elems[i].par, c.elems[i].pidx = c, i
		}
	default:
		c.v = e.zero(t)
	}
	return c
}

// newArrayCell makes an array cell of n elements of type elem.
func (e *Exec) newArrayCell(elem types.Type, n int) *Cell {
	return e.newCell(types.NewArray(elem, int64(n)))
}

func intWidth(t types.Type) (w int, signed bool, ok bool) {
	b, isb := t.Underlying().(*types.Basic)
	if !isb {
		return 0, false, false
	}
	switch b.Kind() {
	case types.Int8:
		return 8, true, true
	case types.Int16:
		return 16, true, true
	case types.Int32, types.UntypedRune:
		return 32, true, true
	case types.Int64, types.Int, types.UntypedInt:
		return 64, true, true
	case types.Uint8:
		return 8, false, true
	case types.Uint16:
		return 16, false, true
	case types.Uint32:
		return 32, false, true
	case types.Uint64, types.Uint, types.Uintptr:
		return 64, false, true
	}
	return 0, false, false
}

func isFloat(t types.Type) bool {
	b, ok := t.Underlying().(*types.Basic)
	return ok && b.Info()&types.IsFloat != 0
}
func isBool(t types.Type) bool {
	b, ok := t.Underlying().(*types.Basic)
	return ok && b.Info()&types.IsBoolean != 0
}
func isString(t types.Type) bool {
	b, ok := t.Underlying().(*types.Basic)
	return ok && b.Info()&types.IsString != 0
}

func (e *Exec) zero(t types.Type) Value {
	if w, _, ok := intWidth(t); ok {
		return e.b.ConstU(w, 0)
	}
	if nt, ok := t.(*types.Named); ok {
		if z, ok := e.modelZero(nt); ok {
			return z
		}
	}
	switch u := t.Underlying().(type) {
	case *types.Basic:
		switch {
		case u.Info()&types.IsBoolean != 0:
			return e.b.Bool(false)
		case u.Info()&types.IsString != 0:
			return &StrV{}
		case u.Info()&types.IsFloat != 0:
			return float64(0)
		case u.Kind() == types.UnsafePointer:
			return &Ptr{}
		case u.Kind() == types.UntypedNil:
			return &Ptr{}
		}
	case *types.Pointer:
		return &Ptr{}
	case *types.Slice:
		return &SliceV{}
	case *types.Struct:
		s := &StructV{f: make([]Value, u.NumFields())}
		for i := range s.f {
			s.f[i] = e.zero(u.Field(i).Type())
		}
		return s
	case *types.Array:
		a := &ArrayV{e: make([]Value, int(u.Len()))}
		for i := range a.e {
			a.e[i] = e.zero(u.Elem())
		}
		return a
	case *types.Interface:
		return &IfaceV{}
	case *types.Signature:
		return &FuncV{}
	case *types.Map:
		return (*MapV)(nil)
	case *types.Chan:
		return nil
	case *types.Tuple:
		tv := make(TupleV, u.Len())
		for i := range tv {
			tv[i] = e.zero(u.At(i).Type())
		}
		return tv
	}
	e.unsupported("zero value of type %s", t)
	return nil
}

// load reads the full value of a cell.
func (e *Exec) loadCell(c *Cell) Value {
	if c.elems == nil {
		if e.il != nil {
			e.ilAccess(c, false)
		}
		return c.v
	}
	switch c.typ.Underlying().(type) {
	case *types.Struct:
		s := &StructV{f: make([]Value, len(c.elems))}
		for i, ec := range c.elems {
			s.f[i] = e.loadCell(ec)
		}
		return s
	default:
		a := &ArrayV{e: make([]Value, len(c.elems))}
		for i, ec := range c.elems {
			a.e[i] = e.loadCell(ec)
		}
		return a
	}
}

func (e *Exec) storeCell(c *Cell, v Value) {
	if c.elems == nil {
		if e.il != nil {
			e.ilAccess(c, true)
		}
		c.v = v
		return
	}
	switch x := v.(type) {
	case *StructV:
		for i, ec := range c.elems {
			e.storeCell(ec, x.f[i])
		}
	case *ArrayV:
		if len(x.e) != len(c.elems) {
			e.internal("array store length mismatch")
		}
		for i, ec := range c.elems {
			e.storeCell(ec, x.e[i])
		}
	default:
		e.internal("store of %T into composite cell %s", v, c.typ)
	}
}

// ite over values (same shape)
func (e *Exec) iteValue(c *Term, x, y Value) Value {
	if c.isTrue() {
		return x
	}
	if c.isFalse() {
		return y
	}
	switch a := x.(type) {
	case *Term:
		return e.b.Ite(c, a, y.(*Term))
	case *StructV:
		bb := y.(*StructV)
		s := &StructV{f: make([]Value, len(a.f))}
		for i := range a.f {
			s.f[i] = e.iteValue(c, a.f[i], bb.f[i])
		}
		return s
	case *ArrayV:
		bb := y.(*ArrayV)
		s := &ArrayV{e: make([]Value, len(a.e))}
		for i := range a.e {
			s.e[i] = e.iteValue(c, a.e[i], bb.e[i])
		}
		return s
	case *Ptr:
		bp := y.(*Ptr)
		p := &Ptr{}
		for _, al := range a.alts {
			p.alts = append(p.alts, PtrAlt{e.b.BAnd(c, al.cond), al.cell})
		}
		for _, al := range bp.alts {
			p.alts = append(p.alts, PtrAlt{e.b.BAnd(e.b.BNot(c), al.cond), al.cell})
		}
		return p
	case *SliceV:
		bs := y.(*SliceV)
		if a.arr == bs.arr && a.off == bs.off && a.len == bs.len && a.cap == bs.cap {
			return a
		}
	case *StrV:
		bs := y.(*StrV)
		if len(a.bs) == len(bs.bs) {
			r := &StrV{bs: make([]*Term, len(a.bs))}
			for i := range a.bs {
				r.bs[i] = e.b.Ite(c, a.bs[i], bs.bs[i])
			}
			return r
		}
	case *IfaceV:
		bi := y.(*IfaceV)
		if a.typ == nil && bi.typ == nil {
			return a
		}
		if a.typ != nil && bi.typ != nil && types.Identical(a.typ, bi.typ) {
			if e.sameValue(a.v, bi.v) {
				return a
			}
			return &IfaceV{typ: a.typ, v: e.iteValue(c, a.v, bi.v)}
		}
	case float64:
		if a == y.(float64) {
			return a
		}
	case *OpaqueV:
		if a == y {
			return a
		}
	case *FuncV:
		if a == y {
			return a
		}
	}
	panic(mergeFail{})
}

type mergeFail struct{}

func (e *Exec) sameValue(x, y Value) bool {
	switch a := x.(type) {
	case *Term:
		b, ok := y.(*Term)
		return ok && a == b
	case *Ptr:
		b, ok := y.(*Ptr)
		if !ok || len(a.alts) != len(b.alts) {
			return false
		}
		for i := range a.alts {
			if a.alts[i] != b.alts[i] {
				return false
			}
		}
		return true
	case *OpaqueV:
		return x == y
	}
	return false
}

func ptrTo(c *Cell, b *Builder) *Ptr { return &Ptr{alts: []PtrAlt{{b.Bool(true), c}}} }

func (e *Exec) termOf(v Value) *Term {
	t, ok := v.(*Term)
	if !ok {
		e.internal("expected scalar term, got %T", v)
	}
	return t
}

func (e *Exec) concreteInt(v Value) (int, bool) {
	t, ok := v.(*Term)
	if !ok || !t.IsConst() {
		return 0, false
	}
	k := t.K
	if t.S > 0 {
		k = signedVal(int(t.S), t.K)
	}
	if !k.IsInt64() {
		return 0, false
	}
	return int(k.Int64()), true
}

func (e *Exec) strConst(s string) *StrV {
	r := &StrV{bs: make([]*Term, len(s))}
	for i := 0; i < len(s); i++ {
		r.bs[i] = e.b.ConstU(8, uint64(s[i]))
	}
	return r
}

func (s *StrV) concrete() (string, bool) {
	bs := make([]byte, len(s.bs))
	for i, t := range s.bs {
		if !t.IsConst() {
			return "", false
		}
		bs[i] = byte(t.K.Uint64())
	}
	return string(bs), true
}

func describeValue(v Value) string {
	switch x := v.(type) {
	case *Term:
		if x.IsConst() {
			return x.K.String()
		}
		return fmt.Sprintf("t%d", x.ID)
	case *StrV:
		if s, ok := x.concrete(); ok {
			return fmt.Sprintf("%q", s)
		}
	}
	return fmt.Sprintf("%T", v)
}

var _ = big.NewInt

// ---------------------------------------------------------------- heap cloning (init snapshots)

type cloner struct {
	cells map[*Cell]*Cell
	maps  map[*MapV]*MapV
}

func (c *cloner) cell(x *Cell) *Cell {
	if x == nil {
		return nil
	}
	if y, ok := c.cells[x]; ok {
		return y
	}
	y := &Cell{typ: x.typ, id: x.id, pidx: x.pidx}
	c.cells[x] = y
	y.par = c.cell(x.par)
	if x.elems != nil {
		y.elems = make([]*Cell, len(x.elems))
		for i, e := range x.elems {
			y.elems[i] = c.cell(e)
		}
	} else {
		y.v = c.value(x.v)
	}
	return y
}

func (c *cloner) value(v Value) Value {
	switch x := v.(type) {
	case *Ptr:
		p := &Ptr{alts: make([]PtrAlt, len(x.alts))}
		for i, a := range x.alts {
			p.alts[i] = PtrAlt{a.cond, c.cell(a.cell)}
		}
		return p
	case *SliceV:
		return &SliceV{arr: c.cell(x.arr), off: x.off, len: x.len, cap: x.cap}
	case *StructV:
		s := &StructV{f: make([]Value, len(x.f))}
		for i := range x.f {
			s.f[i] = c.value(x.f[i])
		}
		return s
	case *ArrayV:
		s := &ArrayV{e: make([]Value, len(x.e))}
		for i := range x.e {
			s.e[i] = c.value(x.e[i])
		}
		return s
	case *IfaceV:
		return &IfaceV{typ: x.typ, v: c.value(x.v)}
	case *FuncV:
		f := &FuncV{fn: x.fn, builtin: x.builtin, recv: x.recv}
		for _, b := range x.bind {
			f.bind = append(f.bind, c.value(b))
		}
		return f
	case *MapV:
		if x == nil {
			return x
		}
		if m, ok := c.maps[x]; ok {
			return m
		}
		m := &MapV{kt: x.kt, vt: x.vt}
		c.maps[x] = m
		for i := range x.keys {
			m.keys = append(m.keys, c.value(x.keys[i]))
			m.vals = append(m.vals, c.value(x.vals[i]))
		}
		return m
	case TupleV:
		t := make(TupleV, len(x))
		for i := range x {
			t[i] = c.value(x[i])
		}
		return t
	}
	return v
}
