package main

import (
	"fmt"
	"go/token"

	"golang.org/x/tools/go/ssa"
)

// Two-thread, one-preemption schedule exploration (harness API zzInterleave(fa, fb, k)).
//
// Thread A (fa) runs until it has executed k store instructions, is suspended, thread B (fb) runs
// to completion, A resumes.  The harness picks k over a stated range, so every suspension point of
// A at store granularity within the range is a separate path; data (keys, messages) stay symbolic.
// Synchronisation objects are modelled: sync.Mutex / RWMutex (a thread that needs a lock held by
// the suspended thread cannot run: that schedule is infeasible and pruned), sync.Once (same, plus
// "done" observed = acquire).  A happens-before race detector (release counters per thread, acquire
// = join on the other thread's release index of that object) flags conflicting accesses to the same
// heap leaf that are not ordered by such an edge: that is exactly a Go data race for these two
// threads.  Everything before zzInterleave happens-before both threads.

type thrLocals struct {
	depth    int
	curFrame *frame
	panicFr  *frame
	curPos   token.Pos
	curFn    *ssa.Function
	spec     int
}

func (e *Exec) saveLocals() thrLocals {
	return thrLocals{e.depth, e.curFrame, e.panicFr, e.curPos, e.curFn, e.spec}
}

func (e *Exec) restoreLocals(l thrLocals) {
	e.depth, e.curFrame, e.panicFr, e.curPos, e.curFn, e.spec = l.depth, l.curFrame, l.panicFr, l.curPos, l.curFn, l.spec
}

type ilThread struct {
	relCount int
	wr, rd   map[*Cell]int
	wrPos    map[*Cell]string
	rel      map[*Cell]int
	seen     int
}

func newIlThread() *ilThread {
	return &ilThread{wr: map[*Cell]int{}, rd: map[*Cell]int{}, wrPos: map[*Cell]string{}, rel: map[*Cell]int{}}
}

type ilState struct {
	k, stores int
	cur       int // 0 = A, 1 = B
	thr       [2]*ilThread
	aSusp     bool
	aDone     bool
	preempted bool
	toMain    chan interface{}
	toA       chan bool
	holder    map[*Cell]int
	raced     bool
}

type ilSuspended struct{}
type ilFinished struct{ rec interface{} }
type ilAbort struct{}

func (e *Exec) interleave(fa, fb Value, k int) bool {
	if e.il != nil {
		e.unsupported("nested zzInterleave")
	}
	il := &ilState{k: k, thr: [2]*ilThread{newIlThread(), newIlThread()}, toMain: make(chan interface{}), toA: make(chan bool), holder: map[*Cell]int{}}
	e.il = il
	mainLoc := e.saveLocals()
	e.run.assumes["schedules: two threads, thread A suspended once after its k-th store (k picked by the harness), thread B runs to completion, A resumes; sync.Mutex/RWMutex/Once modelled; race detection over SSA loads/stores and copies (accesses inside intercepted library intrinsics not tracked)"] = true
	defer func() {
		if il.aSusp && !il.aDone {
			il.toA <- false
			<-il.toMain
		}
		e.il = nil
		e.restoreLocals(mainLoc)
	}()
	go func() {
		defer func() {
			r := recover()
			il.aDone = true
			il.toMain <- ilFinished{r}
		}()
		e.callValue(fa, nil, nil)
	}()
	msg := <-il.toMain
	if _, ok := msg.(ilSuspended); ok {
		il.preempted = true
		e.restoreLocals(mainLoc)
		il.cur = 1
		e.callValue(fb, nil, nil)
		il.cur = 0
		il.aSusp = false
		il.toA <- true
		msg = <-il.toMain
		e.restoreLocals(mainLoc)
		fin := msg.(ilFinished)
		if fin.rec != nil {
			panic(fin.rec)
		}
		return true
	}
	fin := msg.(ilFinished)
	e.restoreLocals(mainLoc)
	if fin.rec != nil {
		panic(fin.rec)
	}
	// A finished before its k-th store: B runs afterwards (sequential order A;B)
	il.cur = 1
	e.callValue(fb, nil, nil)
	il.cur = 0
	return false
}

// called after every SSA store of the running thread
func (e *Exec) ilStorePoint() {
	il := e.il
	if il == nil || il.cur != 0 || il.aSusp || il.preempted {
		return
	}
	il.stores++
	if il.stores != il.k {
		return
	}
	il.aSusp = true
	mine := e.saveLocals()
	il.toMain <- ilSuspended{}
	if ok := <-il.toA; !ok {
		panic(ilAbort{})
	}
	e.restoreLocals(mine)
}

func (e *Exec) ilAccess(c *Cell, write bool) {
	il := e.il
	if il == nil || il.raced {
		return
	}
	me, other := il.thr[il.cur], il.thr[1-il.cur]
	if i, ok := other.wr[c]; ok && i >= me.seen {
		e.ilRace(c, write, other.wrPos[c])
	} else if write {
		if i, ok := other.rd[c]; ok && i >= me.seen {
			e.ilRace(c, write, other.wrPos[c])
		}
	}
	if write {
		me.wr[c] = me.relCount
		me.wrPos[c] = e.posStr()
	} else if _, ok := me.rd[c]; !ok {
		me.rd[c] = me.relCount
		if _, ok := me.wrPos[c]; !ok {
			me.wrPos[c] = e.posStr()
		}
	} else {
		me.rd[c] = me.relCount
	}
}

func (e *Exec) ilRace(c *Cell, write bool, otherPos string) {
	e.il.raced = true
	kind := "read"
	if write {
		kind = "write"
	}
	typ := "?"
	if c.typ != nil {
		typ = c.typ.String()
	}
	e.run.check(e, "assert", fmt.Sprintf("no data race: unsynchronised %s of a %s also accessed by the other thread at %s", kind, typ, otherPos), e.b.Bool(false))
}

func (e *Exec) ilAcquire(s *Cell) {
	il := e.il
	if il == nil {
		return
	}
	me, other := il.thr[il.cur], il.thr[1-il.cur]
	if r, ok := other.rel[s]; ok && r > me.seen {
		me.seen = r
	}
}

func (e *Exec) ilRelease(s *Cell) {
	il := e.il
	if il == nil {
		return
	}
	me := il.thr[il.cur]
	me.relCount++
	me.rel[s] = me.relCount
}

// lock / unlock of a mutex-like object; a thread needing an object held by the other (suspended)
// thread cannot run in this schedule
func (e *Exec) ilLock(s *Cell) {
	il := e.il
	if il == nil {
		return
	}
	if h, ok := il.holder[s]; ok && h != il.cur {
		e.throw("infeasible", "schedule infeasible: lock held by the suspended thread")
	}
	il.holder[s] = il.cur
	e.ilAcquire(s)
}

func (e *Exec) ilUnlock(s *Cell) {
	il := e.il
	if il == nil {
		return
	}
	delete(il.holder, s)
	e.ilRelease(s)
}
