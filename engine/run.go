package main

// Path exploration driver: decisions, path condition, obligations, solver portfolio.

import (
	"crypto/sha256"
	"fmt"
	"math/big"
	"os"
	"runtime/debug"
	"sort"
	"strings"
	"sync"
	"time"

	"golang.org/x/tools/go/ssa"
)

type HarnessOpts struct {
	Prop          string
	Also          []string
	Tier          string // quick | thorough (harness runs in tiers >= this)
	Backend       string // bv | lia | nra
	TimeoutS      int
	MaxPaths      int
	MaxSteps      int64
	PanicsOK      bool // paths ending in a Go panic are ignored (documented-precondition harnesses)
	NoMerge       bool
	Solvers       []string
	ExpectFail    bool // selftest harness: must be violated
	MaxConc       int
	Use           []string
	Workers       int
	AssertWorkers int
	BudgetS       int
	SyncAsserts   bool
}

type Stats struct {
	Paths       int
	Steps       int64
	Merges      int
	Queries     int
	SolverSecs  map[string]float64
	Unsat       int
	Sat         int
	Unknown     int
	Infeasible  int
	TermNodes   int
	MaxQueryS   float64
	Concretized int
}

type Finding struct {
	Kind    string // "assert" | "panic" | "obligation"
	Label   string
	Pos     string
	Model   map[string]string
	Lens    map[string]int
	Path    []int
	Harness string
	Replay  string     // path of replay file
	Known   string     // matched known-finding id
	Status  string     // confirmed | unconfirmed | spurious
	UFDep   bool       // path condition mentions uninterpreted functions
	Alts    []*Finding `json:"-"`
}

type OblStat struct {
	Kind, Label, Pos         string
	Checked, Unsat, Sat, Unk int
	Detail                   string
}

type HarnessRun struct {
	Name    string
	Pkg     string
	fn      *ssa.Function
	prog    *ssa.Program
	opts    HarnessOpts
	b       *Builder
	ss      *solverSet
	pool    []*solverSet
	pending []*pendingAssert
	dumpN   int

	// per path
	prefix    []int
	pos       int
	decisions []int
	pc        []*Term
	witness   map[string]*big.Int
	lens      map[string]int
	inInit    bool
	noMerge   bool

	maxSteps    int64
	maxAlloc    int
	maxSymIndex int

	q     *workQueue
	stats Stats

	obls      map[string]*OblStat
	findings  []*Finding
	incon     []string // inconclusive reasons
	assumes   map[string]bool
	stubs     map[string]bool
	funcs     map[string]bool
	reached   map[string]bool // labels of zzReach witnesses reached on a feasible path
	seenFind  map[string]bool
	inputs    []string
	snap      *Exec
	stubFns   map[string]*ssa.Function
	snapTried bool
	snapOrder   []*ssa.Package
	snapExtends int
	havocN    int
	memoObj   map[string][]*Term
	tainted   bool
	startWit  map[string]*big.Int
	lastFull  bool
	leafCache map[int]map[string]bool
	noSlice   bool
	completed int
	samples   []string
	log       []string
}

func newHarnessRun(name string, fn *ssa.Function, prog *ssa.Program, opts HarnessOpts) *HarnessRun {
	r := &HarnessRun{Name: name, fn: fn, prog: prog, opts: opts, ss: newSolverSet(),
		obls: map[string]*OblStat{}, assumes: map[string]bool{}, stubs: map[string]bool{}, funcs: map[string]bool{},
		reached: map[string]bool{}, seenFind: map[string]bool{}, stubFns: map[string]*ssa.Function{}}
	r.stats.SolverSecs = map[string]float64{}
	r.maxSteps = opts.MaxSteps
	if r.maxSteps == 0 {
		r.maxSteps = 50_000_000
	}
	r.maxAlloc = 1 << 18
	r.maxSymIndex = 1024
	r.noMerge = opts.NoMerge
	if r.opts.MaxPaths == 0 {
		r.opts.MaxPaths = 20000
	}
	if r.opts.TimeoutS == 0 {
		r.opts.TimeoutS = 60
	}
	if r.opts.BudgetS == 0 {
		r.opts.BudgetS = 600
	}
	if r.opts.MaxConc == 0 {
		r.opts.MaxConc = 64
	}
	if len(r.opts.Solvers) == 0 {
		if r.opts.Backend == "lia" || r.opts.Backend == "nra" {
			r.opts.Solvers = []string{"z3", "z3new"}
		} else {
			r.opts.Solvers = []string{"z3", "z3new", "cvc5"}
		}
	}
	return r
}

func (r *HarnessRun) closeSolvers() {
	r.ss.close()
	for _, p := range r.pool {
		p.close()
	}
}

// query: is (pc ∧ extra) satisfiable?
type prepared struct {
	script  string
	vars    []*Term
	backend string
	trivial *SolveResult
	full    bool
}

// solverSet: solver processes + statistics owned by one goroutine.
type solverSet struct {
	solvers map[string]*Solver
	stats   Stats
	notes   []string
}

func newSolverSet() *solverSet {
	ss := &solverSet{solvers: map[string]*Solver{}}
	ss.stats.SolverSecs = map[string]float64{}
	return ss
}

func (ss *solverSet) close() {
	for _, s := range ss.solvers {
		s.Close()
	}
}

func (ss *solverSet) solver(name string) *Solver {
	s := ss.solvers[name]
	if s == nil || s.dead {
		var err error
		s, err = StartSolver(name)
		if err != nil {
			fmt.Fprintf(os.Stderr, "cannot start solver %s: %v\n", name, err)
			return nil
		}
		ss.solvers[name] = s
	}
	return s
}

func (r *HarnessRun) prepare(extra []*Term, wantModel bool) prepared {
	asserts := r.slice(extra)
	p := prepared{full: len(asserts) == len(r.pc)+len(extra)}
	for _, a := range asserts {
		if a.isFalse() {
			p.trivial = &SolveResult{Status: "unsat"}
			return p
		}
	}
	var nodes int
	p.backend = r.opts.Backend
	if p.backend == "lia" || p.backend == "nra" {
		s, n, err := PrintLIA(r.b, asserts)
		if err != nil {
			if p.backend == "nra" {
				p.trivial = &SolveResult{Status: "unknown", Detail: err.Error()}
				return p
			}
			r.note("LIA fallback to BV: " + err.Error())
			p.backend = "bv"
		} else {
			p.script, nodes = s, n
		}
	}
	if p.backend == "bv" || p.backend == "" {
		p.backend = "bv"
		p.script, nodes = PrintBV(r.b, asserts)
	}
	if nodes > r.stats.TermNodes {
		r.stats.TermNodes = nodes
	}
	if dump := os.Getenv("GOSMT_DUMP"); dump != "" {
		r.dumpN++
		os.WriteFile(fmt.Sprintf("%s/%s_%d.smt2", dump, r.Name, r.dumpN), []byte(p.script+"(check-sat)\n"), 0o644)
	}
	if wantModel {
		seen := map[int]bool{}
		var walk func(t *Term)
		walk = func(t *Term) {
			if seen[t.ID] {
				return
			}
			seen[t.ID] = true
			if t.Op == OVar {
				p.vars = append(p.vars, t)
			}
			for _, a := range t.Args {
				walk(a)
			}
		}
		for _, a := range asserts {
			walk(a)
		}
	}
	return p
}

// query: is (pc ∧ extra) satisfiable?
func (r *HarnessRun) query(extra []*Term, wantModel bool, purpose string) SolveResult {
	p := r.prepare(extra, wantModel)
	r.lastFull = p.full
	if p.trivial != nil {
		return *p.trivial
	}
	return r.ss.solve(p, purpose, r.opts)
}

func (ss *solverSet) note(s string) {
	if len(ss.notes) < 100 {
		ss.notes = append(ss.notes, s)
	}
}

func (ss *solverSet) solve(p prepared, purpose string, opts HarnessOpts) SolveResult {
	script, vars, backend := p.script, p.vars, p.backend
	timeout := time.Duration(opts.TimeoutS) * time.Second
	// solver configurations: name + whether to keep the (set-logic ...) line
	type cfg struct {
		name    string
		noLogic bool
	}
	var cfgs []cfg
	for _, sn := range opts.Solvers {
		if backend == "lia" && sn == "cvc5" {
			continue
		}
		cfgs = append(cfgs, cfg{sn, false})
		if backend == "lia" && sn == "z3new" && strings.HasPrefix(script, "(set-logic") {
			cfgs = append(cfgs, cfg{sn, true})
		}
	}
	stripLogic := func(sc string) string {
		if strings.HasPrefix(sc, "(set-logic") {
			return sc[strings.IndexByte(sc, '\n')+1:]
		}
		return sc
	}
	record := func(name string, res SolveResult) {
		ss.stats.Queries++
		ss.stats.SolverSecs[name] += res.Secs
		if res.Secs > ss.stats.MaxQueryS {
			ss.stats.MaxQueryS = res.Secs
		}
	}
	finish := func(res SolveResult) SolveResult {
		if res.Status == "sat" {
			ss.stats.Sat++
		} else {
			ss.stats.Unsat++
		}
		return res
	}
	// stage 1: primary solver, short budget
	var last SolveResult
	stage1 := 10 * time.Second
	if timeout < stage1 {
		stage1 = timeout
	}
	if len(cfgs) > 0 {
		if s := ss.solver(cfgs[0].name); s != nil {
			res := s.Check(script, vars, stage1)
			record(cfgs[0].name, res)
			last = res
			if res.Status == "sat" || res.Status == "unsat" {
				return finish(res)
			}
		}
	}
	// stage 2: race every configuration with the full budget
	if timeout > stage1 || len(cfgs) > 1 {
		type out struct {
			name string
			res  SolveResult
		}
		ch := make(chan out, len(cfgs))
		var procs []*Solver
		for _, c := range cfgs {
			s, err := StartSolver(c.name)
			if err != nil {
				continue
			}
			procs = append(procs, s)
			sc := script
			if c.noLogic {
				sc = stripLogic(sc)
			}
			label := c.name
			if c.noLogic {
				label += "-nologic"
			}
			go func(s *Solver, sc, label string) {
				ch <- out{label, s.Check(sc, vars, timeout)}
			}(s, sc, label)
		}
		var winner *SolveResult
		for range procs {
			o := <-ch
			record(o.name, o.res)
			if (o.res.Status == "sat" || o.res.Status == "unsat") && winner == nil {
				w := o.res
				winner = &w
				for _, p := range procs {
					p.Close()
				}
			} else if winner == nil {
				last = o.res
				ss.note(fmt.Sprintf("%s: %s on %s query (%s) %.1fs", o.name, o.res.Status, purpose, firstLine(o.res.Detail), o.res.Secs))
			}
		}
		for _, p := range procs {
			p.Close()
		}
		if winner != nil {
			return finish(*winner)
		}
	}
	ss.stats.Unknown++
	if last.Status == "" || last.Status == "error" {
		last.Status = "unknown"
	}
	return last
}

func firstLine(s string) string {
	if i := strings.IndexByte(s, '\n'); i >= 0 {
		s = s[:i]
	}
	if len(s) > 160 {
		s = s[:160]
	}
	return s
}

func (r *HarnessRun) note(s string) {
	if len(r.log) < 200 {
		r.log = append(r.log, s)
	}
}

func (r *HarnessRun) evalWitness(c *Term) (val bool, ok bool) {
	if r.witness == nil {
		return false, false
	}
	defer func() {
		if rec := recover(); rec != nil {
			ok = false
		}
	}()
	v := r.b.Eval(c, r.witness, map[int]*big.Int{})
	return v.Sign() != 0, true
}

// fullModel turns the (possibly sliced) model of a sat query into a witness of the whole
// path condition: symbols outside the slice keep their values from the previous witness.
func (r *HarnessRun) fullModel(res SolveResult, wasFull bool) map[string]*big.Int {
	if res.Status != "sat" || res.Model == nil {
		return nil
	}
	if wasFull {
		return res.Model
	}
	if r.witness == nil {
		return nil
	}
	nw := make(map[string]*big.Int, len(r.witness)+len(res.Model))
	for k, v := range r.witness {
		nw[k] = v
	}
	for k, v := range res.Model {
		nw[k] = v
	}
	return nw
}

// replayed: called after consuming one decision of the replay prefix.  The path condition has
// grown without a solver call, so the current witness is no longer known to satisfy it; when the
// prefix is exhausted the witness that was stored with the work item becomes valid.
func (r *HarnessRun) replayed() {
	r.witness = nil
	if r.pos == len(r.prefix) {
		r.witness = r.startWit
	}
}

// branch decides a symbolic If; returns true for the then-successor.
func (r *HarnessRun) branch(e *Exec, c *Term) bool {
	if e.spec > 0 {
		panic(mergeFail{})
	}
	if r.inInit {
		e.unsupported("symbolic branch during package init")
	}
	if r.pos < len(r.prefix) {
		d := r.prefix[r.pos]
		r.pos++
		r.decisions = append(r.decisions, d)
		if d == 0 {
			r.pc = append(r.pc, c)
		} else {
			r.pc = append(r.pc, r.b.BNot(c))
		}
		r.replayed()
		return d == 0
	}
	nc := r.b.BNot(c)
	wv, wok := r.evalWitness(c)
	feasT, feasF := false, false
	var modelT, modelF map[string]*big.Int
	if wok && wv {
		feasT, modelT = true, r.witness
	} else {
		res := r.query([]*Term{c}, true, "branch")
		feasT = res.Status != "unsat"
		if res.Status != "unsat" && res.Status != "sat" {
			r.tainted = true
		}
		modelT = r.fullModel(res, r.lastFull)
	}
	if wok && !wv {
		feasF, modelF = true, r.witness
	} else if !feasT {
		feasF = true // pc is feasible, so the other side must be
		modelF = r.witness
	} else {
		res := r.query([]*Term{nc}, true, "branch")
		feasF = res.Status != "unsat"
		if res.Status != "unsat" && res.Status != "sat" {
			r.tainted = true
		}
		modelF = r.fullModel(res, r.lastFull)
	}
	if !feasT && !feasF {
		e.throw("infeasible", "both branches infeasible")
	}
	if feasT {
		if feasF {
			alt := append(append([]int{}, r.decisions...), 1)
			r.q.push(alt, modelF)
		}
		r.decisions = append(r.decisions, 0)
		r.pos++
		r.pc = append(r.pc, c)
		r.witness = modelT
		return true
	}
	r.stats.Infeasible++
	r.decisions = append(r.decisions, 1)
	r.pos++
	r.pc = append(r.pc, nc)
	r.witness = modelF
	return false
}

// choice among explicit int values (NondetLen): no solver involved.
func (r *HarnessRun) choose(e *Exec, vals []int) int {
	if e.spec > 0 {
		panic(mergeFail{})
	}
	if r.inInit {
		e.unsupported("nondeterministic choice during package init")
	}
	if len(vals) == 0 {
		e.throw("infeasible", "empty choice")
	}
	if r.pos < len(r.prefix) {
		d := r.prefix[r.pos]
		r.pos++
		r.decisions = append(r.decisions, d)
		r.replayed()
		return d
	}
	for _, v := range vals[1:] {
		alt := append(append([]int{}, r.decisions...), v)
		r.q.push(alt, r.witness)
	}
	r.decisions = append(r.decisions, vals[0])
	r.pos++
	return vals[0]
}

func (r *HarnessRun) concretize(e *Exec, t *Term, what string) int {
	if e.spec > 0 {
		panic(mergeFail{})
	}
	if r.inInit {
		e.unsupported("symbolic size during package init")
	}
	eqv := func(v int) *Term { return r.b.Eq(t, r.b.Const(int(t.S), big.NewInt(int64(v)))) }
	if r.pos < len(r.prefix) {
		d := r.prefix[r.pos]
		r.pos++
		r.decisions = append(r.decisions, d)
		r.pc = append(r.pc, eqv(d))
		r.replayed()
		return d
	}
	r.stats.Concretized++
	var vals []int
	wits := map[int]map[string]*big.Int{}
	var block []*Term
	var tie, cv *Term
	for {
		var res SolveResult
		if len(block) == 0 {
			// need t's symbols in the slice: assert a tautology mentioning t is simplified away,
			// so query the full path condition instead
			save := r.noSlice
			r.noSlice = true
			res = r.query(nil, true, "concretize "+what)
			r.noSlice = save
		} else {
			res = r.query(block, true, "concretize "+what)
		}
		if res.Status == "unsat" {
			break
		}
		if res.Status != "sat" {
			e.throw("limit", "cannot enumerate values of symbolic %s (%s)", what, res.Status)
		}
		fm := r.fullModel(res, r.lastFull)
		m := res.Model
		if fm != nil {
			m = fm
		}
		v := func() (v *big.Int) {
			defer func() {
				if rec := recover(); rec != nil {
					v = nil
				}
			}()
			return r.b.Eval(t, m, map[int]*big.Int{})
		}()
		if v == nil {
			// t contains uninterpreted functions (no evaluator): name it by a fresh variable tied to t
			// in the query and read that variable from the solver's model
			if tie == nil {
				cv = r.b.Fresh("zzconc", t.S)
				tie = r.b.Eq(cv, t)
			}
			res = r.query(append(append([]*Term{}, block...), tie), true, "concretize "+what)
			if res.Status != "sat" || res.Model == nil || res.Model[cv.Name] == nil {
				e.throw("limit", "cannot enumerate values of symbolic %s (%s)", what, res.Status)
			}
			fm = r.fullModel(res, r.lastFull)
			v = res.Model[cv.Name]
		}
		sv := signedVal(int(t.S), v)
		if !sv.IsInt64() {
			e.throw("limit", "symbolic %s has huge value", what)
		}
		vals = append(vals, int(sv.Int64()))
		wits[int(sv.Int64())] = fm
		block = append(block, r.b.BNot(eqv(int(sv.Int64()))))
		if len(vals) > r.opts.MaxConc {
			e.throw("limit", "symbolic %s has more than %d feasible values; add an assumption bounding it", what, r.opts.MaxConc)
		}
	}
	if len(vals) == 0 {
		e.throw("infeasible", "no feasible value for %s", what)
	}
	sort.Ints(vals)
	for _, v := range vals[1:] {
		alt := append(append([]int{}, r.decisions...), v)
		r.q.push(alt, wits[v])
	}
	r.decisions = append(r.decisions, vals[0])
	r.pos++
	r.pc = append(r.pc, eqv(vals[0]))
	r.witness = wits[vals[0]]
	return vals[0]
}

func (r *HarnessRun) assume(e *Exec, c *Term, desc string) {
	if e.spec > 0 {
		panic(mergeFail{})
	}
	if desc != "" {
		r.assumes[desc] = true
	}
	if c.isTrue() {
		return
	}
	if c.isFalse() {
		e.throw("infeasible", "assumption false")
	}
	if v, ok := r.evalWitness(c); ok && v {
		r.pc = append(r.pc, c)
		return
	}
	res := r.query([]*Term{c}, true, "assume")
	if res.Status == "unsat" {
		e.throw("infeasible", "assumption unsatisfiable")
	}
	w := r.fullModel(res, r.lastFull)
	r.pc = append(r.pc, c)
	r.witness = w
}

func (r *HarnessRun) oblStat(kind, label, pos string) *OblStat {
	k := kind + "|" + label + "|" + pos
	o := r.obls[k]
	if o == nil {
		o = &OblStat{Kind: kind, Label: label, Pos: pos}
		r.obls[k] = o
	}
	return o
}

func modelStrings(m map[string]*big.Int) map[string]string {
	out := map[string]string{}
	for k, v := range m {
		if strings.Contains(k, "!") {
			continue
		}
		out[k] = v.String()
	}
	return out
}

func (r *HarnessRun) addFinding(kind, label, pos string, model map[string]*big.Int) {
	if os.Getenv("GOSMT_DEBUG") != "" {
		fmt.Fprintf(os.Stderr, "DEBUG finding %s %q at %s decisions=%v prefix=%v pos=%d model=%v pc=%d\n", kind, label, pos, r.decisions, r.prefix, r.pos, model, len(r.pc))
		debug.PrintStack()
	}
	key := kind + "|" + label + "|" + pos
	lens := map[string]int{}
	for k, v := range r.lens {
		lens[k] = v
	}
	ufDep := false
	for _, c := range r.pc {
		for k := range r.leaves(c) {
			if strings.HasPrefix(k, "uf:") {
				ufDep = true
			}
		}
	}
	if r.tainted {
		// the feasibility of this path was not established (solver unknown at a branch)
		r.incon = append(r.incon, fmt.Sprintf("%s %q at %s fails on a path whose feasibility is unknown (branch query undecided)", kind, label, pos))
		return
	}
	nf := &Finding{Kind: kind, Label: label, Pos: pos, Model: modelStrings(model), Lens: lens,
		Path: append([]int{}, r.decisions...), Harness: r.Name, UFDep: ufDep}
	if r.seenFind[key] {
		for _, f := range r.findings {
			if f.Kind == kind && f.Label == label && f.Pos == pos {
				if len(f.Alts) < 8 {
					if !ufDep && f.UFDep {
						// prefer a counterexample that does not depend on uninterpreted-function values
						old := *f
						old.Alts = nil
						alts := append(f.Alts, &old)
						*f = *nf
						f.Alts = alts
					} else {
						f.Alts = append(f.Alts, nf)
					}
				}
				return
			}
		}
		return
	}
	r.seenFind[key] = true
	r.findings = append(r.findings, nf)
}

// obligation: cond must hold on this path (runtime-panic freedom).
func (r *HarnessRun) obligation(e *Exec, cond *Term, desc string) {
	r.check(e, "obligation", desc, cond)
}

func (r *HarnessRun) check(e *Exec, kind, label string, cond *Term) {
	if e.spec > 0 {
		panic(mergeFail{})
	}
	if r.inInit {
		e.unsupported("symbolic obligation during package init")
	}
	pos := e.posStr()
	o := r.oblStat(kind, label, pos)
	o.Checked++
	if cond.isTrue() {
		o.Unsat++
		return
	}
	nc := r.b.BNot(cond)
	if v, ok := r.evalWitness(cond); ok && !v {
		// witness already violates
		o.Sat++
		r.addFinding(kind, label, pos, r.witness)
	} else if pm := r.probe(nc); pm != nil {
		// a concrete probe valuation satisfies the path condition and violates the condition
		o.Sat++
		r.addFinding(kind, label, pos, pm)
	} else if kind == "assert" && !r.opts.SyncAsserts {
		p := r.prepare([]*Term{nc}, true)
		if p.trivial != nil {
			r.lastFull = p.full
			r.finishCheck(kind, label, pos, o, nc, *p.trivial)
			return
		}
		lens := map[string]int{}
		for k, v := range r.lens {
			lens[k] = v
		}
		r.pending = append(r.pending, &pendingAssert{p: p, kind: kind, label: label, pos: pos, o: o, nc: nc, pcLen: len(r.pc),
			witness: r.witness, lens: lens, decisions: append([]int{}, r.decisions...)})
		if len(r.pending) >= 256 {
			r.flushAsserts()
		}
		return
	} else {
		res := r.query([]*Term{nc}, true, kind)
		if r.finishCheck(kind, label, pos, o, nc, res) {
			return
		}
		if res.Status != "sat" {
			return
		}
	}
	// continue under the assumption that the condition holds (if possible)
	if kind == "obligation" {
		res := r.query([]*Term{cond}, true, "continue")
		if res.Status == "unsat" {
			e.throw("stop", "always fails")
		}
		w := r.fullModel(res, r.lastFull)
		r.pc = append(r.pc, cond)
		r.witness = w
	}
}

type workQueue struct {
	mu       sync.Mutex
	cond     *sync.Cond
	items    []workItem
	active   int
	paths    int
	max      int
	stopped  bool
	start    time.Time
	budget   time.Duration
	timedOut bool
}

type workItem struct {
	prefix []int
	wit    map[string]*big.Int
}

func newWorkQueue(max int) *workQueue {
	q := &workQueue{max: max, items: []workItem{{}}}
	q.cond = sync.NewCond(&q.mu)
	return q
}

func (q *workQueue) push(p []int, wit map[string]*big.Int) {
	q.mu.Lock()
	q.items = append(q.items, workItem{p, wit})
	q.mu.Unlock()
	q.cond.Signal()
}

// pop blocks until an item is available or all workers are idle with an empty queue.
func (q *workQueue) pop() (workItem, bool) {
	q.mu.Lock()
	defer q.mu.Unlock()
	for {
		if q.stopped {
			return workItem{}, false
		}
		if len(q.items) > 0 {
			if q.budget > 0 && time.Since(q.start) > q.budget {
				q.stopped, q.timedOut = true, true
				q.cond.Broadcast()
				return workItem{}, false
			}
			if q.paths >= q.max {
				q.stopped = true
				q.cond.Broadcast()
				return workItem{}, false
			}
			p := q.items[len(q.items)-1]
			q.items = q.items[:len(q.items)-1]
			q.active++
			q.paths++
			return p, true
		}
		if q.active == 0 {
			q.cond.Broadcast()
			return workItem{}, false
		}
		q.cond.Wait()
	}
}

func (q *workQueue) done() {
	q.mu.Lock()
	q.active--
	q.mu.Unlock()
	q.cond.Broadcast()
}

// runAll explores all paths with `workers` shards sharing one work queue.
func (r *HarnessRun) runAll(workers int) {
	q := newWorkQueue(r.opts.MaxPaths)
	q.start = time.Now()
	q.budget = time.Duration(r.opts.BudgetS) * time.Second
	shards := []*HarnessRun{r}
	for i := 1; i < workers; i++ {
		sh := newHarnessRun(r.Name, r.fn, r.prog, r.opts)
		sh.stubFns = r.stubFns
		shards = append(shards, sh)
	}
	var wg sync.WaitGroup
	for _, s := range shards {
		s.q = q
		s.b = NewBuilder()
		wg.Add(1)
		go func(s *HarnessRun) {
			defer wg.Done()
			defer s.closeSolvers()
			for {
				item, ok := q.pop()
				if !ok {
					return
				}
				prefix := item.prefix
				s.startWit = item.wit
				func() {
					defer q.done()
					defer func() {
						if rec := recover(); rec != nil {
							s.incon = append(s.incon, fmt.Sprintf("executor crashed: %v", rec))
						}
					}()
					s.runPath(prefix)
					s.stats.Paths++
				}()
			}
		}(s)
	}
	wg.Wait()
	for _, s := range shards {
		for _, ss := range append([]*solverSet{s.ss}, s.pool...) {
			s.stats.Queries += ss.stats.Queries
			s.stats.Unsat += ss.stats.Unsat
			s.stats.Sat += ss.stats.Sat
			s.stats.Unknown += ss.stats.Unknown
			if ss.stats.MaxQueryS > s.stats.MaxQueryS {
				s.stats.MaxQueryS = ss.stats.MaxQueryS
			}
			for k, v := range ss.stats.SolverSecs {
				s.stats.SolverSecs[k] += v
			}
			s.log = append(s.log, ss.notes...)
		}
	}
	if q.timedOut {
		r.incon = append(r.incon, fmt.Sprintf("time budget %ds exhausted after %d paths with %d prefixes pending", r.opts.BudgetS, q.paths, len(q.items)))
	} else if q.stopped {
		r.incon = append(r.incon, fmt.Sprintf("path limit %d reached with %d prefixes pending", r.opts.MaxPaths, len(q.items)))
	}
	// merge shards into r
	for _, s := range shards[1:] {
		r.stats.Paths += s.stats.Paths
		r.stats.Steps += s.stats.Steps
		r.stats.Merges += s.stats.Merges
		r.stats.Queries += s.stats.Queries
		r.stats.Unsat += s.stats.Unsat
		r.stats.Sat += s.stats.Sat
		r.stats.Unknown += s.stats.Unknown
		r.stats.Infeasible += s.stats.Infeasible
		r.stats.Concretized += s.stats.Concretized
		if s.stats.TermNodes > r.stats.TermNodes {
			r.stats.TermNodes = s.stats.TermNodes
		}
		if s.stats.MaxQueryS > r.stats.MaxQueryS {
			r.stats.MaxQueryS = s.stats.MaxQueryS
		}
		for k, v := range s.stats.SolverSecs {
			r.stats.SolverSecs[k] += v
		}
		for k, o := range s.obls {
			if t, ok := r.obls[k]; ok {
				t.Checked += o.Checked
				t.Unsat += o.Unsat
				t.Sat += o.Sat
				t.Unk += o.Unk
				if t.Detail == "" {
					t.Detail = o.Detail
				}
			} else {
				r.obls[k] = o
			}
		}
		for _, f := range s.findings {
			key := f.Kind + "|" + f.Label + "|" + f.Pos
			if !r.seenFind[key] {
				r.seenFind[key] = true
				r.findings = append(r.findings, f)
			} else {
				for _, g := range r.findings {
					if g.Kind == f.Kind && g.Label == f.Label && g.Pos == f.Pos && len(g.Alts) < 12 {
						if !f.UFDep && g.UFDep {
							old := *g
							old.Alts = nil
							alts := append(append(g.Alts, f.Alts...), &old)
							*g = *f
							g.Alts = alts
						} else {
							g.Alts = append(append(g.Alts, f), f.Alts...)
						}
					}
				}
			}
		}
		r.incon = append(r.incon, s.incon...)
		for k := range s.assumes {
			r.assumes[k] = true
		}
		for k := range s.stubs {
			r.stubs[k] = true
		}
		for k := range s.funcs {
			r.funcs[k] = true
		}
		for k := range s.reached {
			r.reached[k] = true
		}
		r.inputs = append(r.inputs, s.inputs...)
		r.completed += s.completed
		r.log = append(r.log, s.log...)
	}
}

func (r *HarnessRun) runPath(prefix []int) {
	r.prefix = prefix
	r.havocN = 0
	r.memoObj = nil
	r.tainted = false
	r.pos = 0
	r.decisions = nil
	r.pc = nil
	r.witness = nil
	r.lens = map[string]int{}
	r.b.fresh = 0
	e := &Exec{b: r.b, prog: r.prog, run: r, globals: map[*ssa.Global]*Cell{}, initDone: map[*ssa.Package]bool{}}
	if r.snap != nil {
		// start from a clone of the post-init global state
		cl := &cloner{cells: map[*Cell]*Cell{}, maps: map[*MapV]*MapV{}}
		for g, c := range r.snap.globals {
			e.globals[g] = cl.cell(c)
		}
		for p := range r.snap.initDone {
			e.initDone[p] = true
		}
		e.cellN = r.snap.cellN
		e.opaqueN = r.snap.opaqueN
	}
	defer func() {
		if r.snap == nil && !r.snapTried && len(e.initOrder) > 0 {
			r.snapTried = true
			r.snapOrder = append([]*ssa.Package{}, e.initOrder...)
			r.makeSnapshot(r.snapOrder)
		} else if r.snap != nil && len(e.initOrder) > 0 && r.snapExtends < 6 {
			// this path initialised packages the snapshot does not contain (an earlier path ended
			// before reaching them): extend the snapshot so that later paths do not repeat the work
			r.snapExtends++
			r.snapOrder = append(r.snapOrder, e.initOrder...)
			old := r.snap
			r.snap = nil
			r.makeSnapshot(r.snapOrder)
			if r.snap == nil {
				r.snap = old
			}
		}
	}()
	defer func() {
		r.stats.Steps += e.steps
		rec := recover()
		func() {
			defer func() {
				if r2 := recover(); r2 != nil {
					r.incon = append(r.incon, fmt.Sprintf("assert flush crashed: %v", r2))
				}
			}()
			r.flushAsserts()
		}()
		if rec != nil {
			pe, ok := rec.(*pathEnd)
			if !ok {
				if _, isMerge := rec.(mergeFail); isMerge {
					r.incon = append(r.incon, "internal: unexpected merge failure")
					return
				}
				panic(rec)
			}
			switch pe.kind {
			case "panic":
				if r.opts.PanicsOK {
					return
				}
				o := r.oblStat("panic", pe.msg, pe.pos)
				o.Checked++
				// the path is feasible by construction; get a model
				m := r.witness
				if m == nil {
					res := r.query(nil, true, "panic-model")
					if res.Status == "unsat" {
						o.Unsat++
						return
					}
					if res.Status != "sat" {
						o.Unk++
						r.incon = append(r.incon, fmt.Sprintf("panic %q at %s: feasibility %s", pe.msg, pe.pos, res.Status))
						return
					}
					m = res.Model
				}
				o.Sat++
				r.addFinding("panic", pe.msg, pe.pos, m)
			case "infeasible", "stop":
			default:
				r.incon = append(r.incon, fmt.Sprintf("%s: %s at %s", pe.kind, pe.msg, pe.pos))
			}
		}
	}()
	e.callFunction(r.fn, nil, nil)
	// reachability witness: the end of the harness is reached with a satisfiable path condition
	if r.witness != nil || len(r.pc) == 0 {
		r.completed++
	} else {
		res := r.query(nil, false, "reach-end")
		if res.Status == "sat" {
			r.completed++
		} else if res.Status != "unsat" {
			r.incon = append(r.incon, "reach-end feasibility: "+res.Status)
		}
	}
}

// concretise: a sat answer of a query whose symbolic products were abstracted by free
// variables may be spurious.  Check the model with exact (big-integer) evaluation; if it is
// not a real counterexample, fix the variables of one operand of every product (to the
// model's values, then to a few structured values) so that products become linear and the
// query exact, and re-solve under a short budget.  If no real counterexample is found the
// abstract one is returned marked Detail="abstract": the carry/reduction logic is wrong for
// some values of the partial products, which the replay cannot reproduce natively.
func (r *HarnessRun) concretise(nc *Term, res SolveResult) SolveResult {
	roots := append(append([]*Term{}, r.pc...), nc)
	prods := symProducts(roots)
	if len(prods) == 0 {
		return res
	}
	genuine := func(m map[string]*big.Int) (ok bool) {
		defer func() {
			if rec := recover(); rec != nil {
				ok = false
			}
		}()
		memo := map[int]*big.Int{}
		for _, t := range roots {
			if r.b.Eval(t, m, memo).Sign() == 0 {
				return false
			}
		}
		return true
	}
	if genuine(res.Model) {
		return res
	}
	// variables of the first operand of each product
	fix := map[string]*Term{}
	for _, p := range prods {
		v0 := map[string]*Term{}
		termVars(p.Args[0], map[int]bool{}, v0)
		v1 := map[string]*Term{}
		termVars(p.Args[1], map[int]bool{}, v1)
		done := func(vs map[string]*Term) bool {
			if len(vs) == 0 {
				return false
			}
			for n := range vs {
				if _, ok := fix[n]; !ok {
					return false
				}
			}
			return true
		}
		if done(v0) || done(v1) {
			continue
		}
		for n, t := range v0 {
			fix[n] = t
		}
	}
	var names []string
	for n := range fix {
		names = append(names, n)
	}
	sort.Strings(names)
	cands := []func(i int, n string, t *Term) *big.Int{
		func(i int, n string, t *Term) *big.Int { return res.Model[n] },
		func(i int, n string, t *Term) *big.Int {
			if i == 0 {
				return big.NewInt(2)
			}
			return big.NewInt(0)
		},
		func(i int, n string, t *Term) *big.Int { return maskW(int(t.S)) },
		func(i int, n string, t *Term) *big.Int {
			if i == 0 {
				return big.NewInt(3)
			}
			return big.NewInt(0)
		},
	}
	save, saveT := r.pc, r.opts.TimeoutS
	defer func() { r.pc, r.opts.TimeoutS = save, saveT }()
	r.opts.TimeoutS = 20
	for ci, cand := range cands {
		env := map[string]*big.Int{}
		for i, n := range names {
			v := cand(i, n, fix[n])
			if v == nil {
				v = big.NewInt(0)
			}
			env[n] = v
		}
		memo := map[int]*Term{}
		var sub []*Term
		for _, t := range roots {
			sub = append(sub, r.b.Subst(t, env, memo))
		}
		r.pc = nil
		ex := r.query(sub, true, "concretise")
		if ex.Status == "sat" {
			for n, v := range env {
				ex.Model[n] = v
			}
			if genuine(ex.Model) {
				r.note(fmt.Sprintf("abstract counterexample concretised with operand candidate %d", ci))
				return ex
			}
		}
	}
	r.note("abstract counterexample (over free partial products) could not be concretised within budget")
	res.Detail = "abstract"
	return res
}

// makeSnapshot runs the package initialisers seen on the first path in a pristine executor
// and keeps the resulting globals; later paths start from a deep copy.
func (r *HarnessRun) makeSnapshot(order []*ssa.Package) {
	e := &Exec{b: r.b, prog: r.prog, run: r, globals: map[*ssa.Global]*Cell{}, initDone: map[*ssa.Package]bool{}}
	ok := true
	func() {
		defer func() {
			if rec := recover(); rec != nil {
				if pe, is := rec.(*pathEnd); is {
					ok = false
					r.note(fmt.Sprintf("init snapshot failed: %s %s at %s", pe.kind, pe.msg, pe.pos))
					return
				}
				panic(rec)
			}
		}()
		for _, p := range order {
			e.runInit(p)
		}
	}()
	if ok {
		r.snap = e
	}
}

// leaves returns the set of free symbols (variable ids, UF names) of a root term, cached per root.
func (r *HarnessRun) leaves(t *Term) map[string]bool {
	if r.leafCache == nil {
		r.leafCache = map[int]map[string]bool{}
	}
	if m, ok := r.leafCache[t.ID]; ok {
		return m
	}
	m := map[string]bool{}
	seen := map[int]bool{}
	var walk func(x *Term)
	walk = func(x *Term) {
		if seen[x.ID] {
			return
		}
		seen[x.ID] = true
		switch x.Op {
		case OVar:
			m[x.Name] = true
		case OUF:
			m["uf:"+x.Name] = true
		}
		for _, a := range x.Args {
			walk(a)
		}
	}
	walk(t)
	r.leafCache[t.ID] = m
	return m
}

// slice returns extra plus the path-condition conjuncts transitively sharing symbols with it
// (independence slicing; sound because the path condition is kept satisfiable: every
// conjunct enters it after a feasibility query or as a checked assumption).
func (r *HarnessRun) slice(extra []*Term) []*Term {
	if len(extra) == 0 || r.noSlice {
		return append(append([]*Term{}, r.pc...), extra...)
	}
	need := map[string]bool{}
	for _, t := range extra {
		for k := range r.leaves(t) {
			need[k] = true
		}
	}
	used := make([]bool, len(r.pc))
	for changed := true; changed; {
		changed = false
		for i, c := range r.pc {
			if used[i] {
				continue
			}
			lv := r.leaves(c)
			hit := false
			for k := range lv {
				if need[k] {
					hit = true
					break
				}
			}
			if hit {
				used[i] = true
				changed = true
				for k := range lv {
					need[k] = true
				}
			}
		}
	}
	var out []*Term
	for i, c := range r.pc {
		if used[i] {
			out = append(out, c)
		}
	}
	return append(out, extra...)
}

type pendingAssert struct {
	p         prepared
	kind      string
	label     string
	pos       string
	o         *OblStat
	nc        *Term
	pcLen     int
	witness   map[string]*big.Int
	lens      map[string]int
	decisions []int
}

// flushAsserts solves the queued assertion queries in parallel (they do not influence control
// flow) and post-processes the answers in program order.
func (r *HarnessRun) flushAsserts() {
	pend := r.pending
	r.pending = nil
	if len(pend) == 0 {
		return
	}
	nw := r.opts.AssertWorkers
	if nw <= 0 {
		nw = 6
	}
	if nw > len(pend) {
		nw = len(pend)
	}
	for len(r.pool) < nw {
		r.pool = append(r.pool, newSolverSet())
	}
	results := make([]SolveResult, len(pend))
	var wg sync.WaitGroup
	next := make(chan int, len(pend))
	for i := range pend {
		next <- i
	}
	close(next)
	for k := 0; k < nw; k++ {
		wg.Add(1)
		go func(ss *solverSet) {
			defer wg.Done()
			for i := range next {
				results[i] = ss.solve(pend[i].p, pend[i].kind, r.opts)
			}
		}(r.pool[k])
	}
	wg.Wait()
	savePC, saveW, saveL, saveD := r.pc, r.witness, r.lens, r.decisions
	for i, pa := range pend {
		r.pc = savePC[:pa.pcLen]
		r.witness, r.lens, r.decisions = pa.witness, pa.lens, pa.decisions
		r.lastFull = pa.p.full
		r.finishCheck(pa.kind, pa.label, pa.pos, pa.o, pa.nc, results[i])
	}
	r.pc, r.witness, r.lens, r.decisions = savePC, saveW, saveL, saveD
}

// finishCheck records the verdict of one obligation query.
func (r *HarnessRun) finishCheck(kind, label, pos string, o *OblStat, nc *Term, res SolveResult) bool {
	if res.Status == "sat" && r.opts.Backend == "lia" {
		res = r.concretise(nc, res)
	}
	switch res.Status {
	case "unsat":
		o.Unsat++
		return true
	case "sat":
		o.Sat++
		m := r.fullModel(res, r.lastFull)
		if m == nil && res.Detail != "abstract" {
			// sliced model without a witness for the rest of the path condition: re-solve unsliced
			save := r.noSlice
			r.noSlice = true
			full := r.query([]*Term{nc}, true, kind+"-fullmodel")
			r.noSlice = save
			if full.Status == "sat" {
				m = full.Model
			}
		}
		if m == nil {
			m = res.Model
		}
		r.addFinding(kind, label, pos, m)
		if res.Detail == "abstract" {
			r.findings[len(r.findings)-1].Status = "abstract"
		}
	default:
		o.Unk++
		o.Detail = firstLine(res.Detail)
		r.incon = append(r.incon, fmt.Sprintf("%s %q at %s: solver %s", kind, label, pos, res.Status))
	}
	return false
}

// probe: cheap sat-side accelerator.  Evaluates (pc ∧ nc) under a few fixed valuations of the
// input variables (all zero, all ones, two pseudo-random ones); returns a valuation under which it
// holds.  A hit is an ordinary counterexample (it is replayed like a solver model); a miss says
// nothing and the query goes to the solver.
func (r *HarnessRun) probe(nc *Term) (m map[string]*big.Int) {
	if r.opts.Backend != "bv" && r.opts.Backend != "" {
		return nil
	}
	roots := append(append([]*Term{}, r.pc...), nc)
	vars := map[string]*Term{}
	seen := map[int]bool{}
	for _, t := range roots {
		termVars(t, seen, vars)
	}
	if len(vars) == 0 || len(vars) > 4096 {
		return nil
	}
	defer func() {
		if rec := recover(); rec != nil {
			m = nil // uninterpreted functions etc.: cannot evaluate
		}
	}()
	for salt := 0; salt < 4; salt++ {
		env := make(map[string]*big.Int, len(vars))
		for n, t := range vars {
			if t.S <= 0 && t.S != SBool {
				return nil
			}
			w := int(t.S)
			if t.S == SBool {
				w = 1
			}
			var v *big.Int
			switch salt {
			case 0:
				v = big.NewInt(0)
			case 1:
				v = maskW(w)
			default:
				h := sha256.Sum256([]byte(fmt.Sprintf("%d|%s", salt, n)))
				v = new(big.Int).SetBytes(h[:])
				for v.BitLen() < w {
					v.Lsh(v, 256)
					v.Or(v, new(big.Int).SetBytes(h[:]))
				}
				v.And(v, maskW(w))
			}
			env[n] = v
		}
		memo := map[int]*big.Int{}
		ok := true
		for _, t := range roots {
			if r.b.Eval(t, env, memo).Sign() == 0 {
				ok = false
				break
			}
		}
		if ok {
			r.note("counterexample found by concrete probe valuation")
			return env
		}
	}
	return nil
}
