package main

// Front end 2: symbolic execution of amd64 assembly from the assembler's own macro-expanded
// listing (`go tool asm -S`), integer straight-line subset (DESIGN §2.2).  The same term layer and
// heap cells as the go/ssa executor are used, so an assembly body and a Go body of the same
// kernel meet in one query.

import (
	"fmt"
	"math/big"
	"os"
	"os/exec"
	"path/filepath"
	"regexp"
	"strconv"
	"strings"
	"sync"
)

type asmInstr struct {
	pc   int
	op   string
	args []string
	line string
}

type asmFunc struct {
	name   string
	locals int
	instrs []asmInstr
	byPC   map[int]int
}

var asmTrace = os.Getenv("GOSMT_ASMTRACE") != ""

var (
	asmCache   = map[string]map[string]*asmFunc{}
	asmCacheMu sync.Mutex
	asmLineRe  = regexp.MustCompile(`^\t0x[0-9a-f]+ (\d+) \(([^)]*)\)\t(\S+)(?:\t(.*))?$`)
	asmHeadRe  = regexp.MustCompile(`^(\S+) STEXT.* locals=0x([0-9a-f]+)`)
)

// loadAsm assembles file (relative to the repository root) and returns its functions by short name.
func loadAsm(repo, rel string) (map[string]*asmFunc, error) {
	asmCacheMu.Lock()
	defer asmCacheMu.Unlock()
	if m, ok := asmCache[rel]; ok {
		return m, nil
	}
	dir := filepath.Join(repo, filepath.Dir(rel))
	goroot, _ := exec.Command("go", "env", "GOROOT").Output()
	inc := filepath.Join(strings.TrimSpace(string(goroot)), "pkg", "include")
	cmd := exec.Command("go", "tool", "asm", "-S", "-I", ".", "-I", inc, "-p", "zzasm", "-o", os.DevNull, filepath.Base(rel))
	cmd.Dir = dir
	cmd.Env = append(os.Environ(), "GOOS=linux", "GOARCH=amd64")
	out, err := cmd.CombinedOutput()
	if err != nil {
		return nil, fmt.Errorf("go tool asm %s: %v: %s", rel, err, firstLine(string(out)))
	}
	funcs := map[string]*asmFunc{}
	var cur *asmFunc
	for _, line := range strings.Split(string(out), "\n") {
		if m := asmHeadRe.FindStringSubmatch(line); m != nil {
			name := m[1]
			if i := strings.LastIndex(name, "."); i >= 0 {
				name = name[i+1:]
			}
			loc, _ := strconv.ParseInt(m[2], 16, 64)
			cur = &asmFunc{name: name, locals: int(loc), byPC: map[int]int{}}
			funcs[name] = cur
			continue
		}
		m := asmLineRe.FindStringSubmatch(line)
		if m == nil || cur == nil {
			continue
		}
		pc, _ := strconv.Atoi(m[1])
		op := m[3]
		if op == "TEXT" || op == "FUNCDATA" || op == "PCDATA" || op == "NOP" {
			continue
		}
		var args []string
		if m[4] != "" {
			for _, a := range strings.Split(m[4], ",") {
				args = append(args, strings.TrimSpace(a))
			}
		}
		if _, dup := cur.byPC[pc]; !dup {
			cur.byPC[pc] = len(cur.instrs)
		}
		cur.instrs = append(cur.instrs, asmInstr{pc: pc, op: op, args: args, line: line})
	}
	asmCache[rel] = funcs
	return funcs, nil
}

// aval: a 64-bit register/stack value: integer term or pointer into a heap object
type aval struct {
	t   *Term
	obj *Cell
	off int
	stk bool // pointer into the frame's stack
}

type asmState struct {
	e     *Exec
	b     *Builder
	regs  map[string]aval
	stack map[int]aval
	args  []aval
	cf    *Term // Bool; nil = undefined
	of    *Term
	zf    *Term
	sf    *Term
	fn    *asmFunc
	feat  bool // value of the hasBmi2Adx / hasBMI2 dispatch byte
	steps int
}

func (s *asmState) fail(f string, a ...interface{}) {
	s.e.unsupported("asm: "+f, a...)
}

var memRe = regexp.MustCompile(`^(?:([A-Za-z_·][A-Za-z_0-9·./]*)?([+-]?\d+)?)\((\w+)\)$`)

func isReg(a string) bool {
	switch a {
	case "AX", "BX", "CX", "DX", "SI", "DI", "BP", "SP", "R8", "R9", "R10", "R11", "R12", "R13", "R14", "R15":
		return true
	}
	return false
}

func (s *asmState) reg(r string) aval {
	v, ok := s.regs[r]
	if !ok {
		// callee sees arbitrary register contents: fresh symbolic value
		s.e.run.havocN++
		v = aval{t: s.b.Var(fmt.Sprintf("asmreg!%s!%d", r, s.e.run.havocN), 64)}
		s.regs[r] = v
	}
	return v
}

func (s *asmState) intOf(v aval) *Term {
	if v.obj != nil || v.stk {
		s.fail("pointer used as integer in %s", s.fn.name)
	}
	return v.t
}

// addr resolves a memory operand to (kind, object, offset)
func (s *asmState) addr(a string) (kind string, v aval, off int) {
	m := memRe.FindStringSubmatch(a)
	if m == nil {
		s.fail("operand %q", a)
	}
	off = 0
	if m[2] != "" {
		off, _ = strconv.Atoi(m[2])
	}
	base := m[3]
	switch base {
	case "FP":
		return "arg", aval{}, off
	case "SB":
		return "sym", aval{}, 0
	}
	bv := s.reg(base)
	if bv.stk {
		return "stack", aval{}, bv.off + off
	}
	if bv.obj == nil {
		s.fail("memory access through non-pointer register %s in %s", base, s.fn.name)
	}
	return "obj", bv, bv.off + off
}

func elemWidth(c *Cell) int {
	if len(c.elems) == 0 {
		return 0
	}
	w, _, ok := intWidth(c.elems[0].typ)
	if !ok {
		return 0
	}
	return w
}

func (s *asmState) loadMem(a string, bits int) aval {
	kind, bv, off := s.addr(a)
	switch kind {
	case "arg":
		idx := (off - 8 - s.fn.locals) / 8
		if idx < 0 || idx >= len(s.args) || (off-8-s.fn.locals)%8 != 0 {
			s.fail("argument offset %d out of range in %s", off, s.fn.name)
		}
		return s.args[idx]
	case "stack":
		v, ok := s.stack[off]
		if !ok {
			s.fail("read of uninitialised stack slot %d in %s", off, s.fn.name)
		}
		return v
	case "sym":
		s.fail("load from symbol %s", a)
	}
	ew := elemWidth(bv.obj)
	if ew == 0 || (off*8)%ew != 0 || bits%ew != 0 {
		s.fail("misaligned %d-bit load at offset %d", bits, off)
	}
	i0, n := off*8/ew, bits/ew
	if i0 < 0 || i0+n > len(bv.obj.elems) {
		s.e.goPanic("asm %s: load out of bounds of the pointed-to object (offset %d)", s.fn.name, off)
	}
	var r *Term
	for k := 0; k < n; k++ {
		t := s.e.termOf(bv.obj.elems[i0+k].v)
		if r == nil {
			r = t
		} else {
			r = s.b.Concat(t, r)
		}
	}
	return aval{t: s.b.ZExt(r, 64)}
}

func (s *asmState) storeMem(a string, v aval, bits int) {
	kind, bv, off := s.addr(a)
	switch kind {
	case "stack":
		s.stack[off] = v
		return
	case "arg", "sym":
		s.fail("store to %s", a)
	}
	t := s.intOf(v)
	ew := elemWidth(bv.obj)
	if ew == 0 || (off*8)%ew != 0 || bits%ew != 0 {
		s.fail("misaligned %d-bit store at offset %d", bits, off)
	}
	i0, n := off*8/ew, bits/ew
	if i0 < 0 || i0+n > len(bv.obj.elems) {
		s.e.goPanic("asm %s: store out of bounds of the pointed-to object (offset %d)", s.fn.name, off)
	}
	for k := 0; k < n; k++ {
		bv.obj.elems[i0+k].v = s.b.Extract(t, ew*k+ew-1, ew*k)
	}
}

// src operand value (64-bit)
func (s *asmState) src(a string, bits int) aval {
	switch {
	case strings.HasPrefix(a, "$"):
		v, ok := new(big.Int).SetString(strings.TrimPrefix(a, "$"), 0)
		if !ok {
			s.fail("immediate %q", a)
		}
		return aval{t: s.b.Const(64, v)}
	case isReg(a):
		return s.reg(a)
	}
	return s.loadMem(a, bits)
}

func (s *asmState) dst(a string, v aval, bits int) {
	if isReg(a) {
		if bits == 32 && v.obj == nil && !v.stk {
			v = aval{t: s.b.ZExt(s.b.Extract(v.t, 31, 0), 64)}
		}
		s.regs[a] = v
		return
	}
	s.storeMem(a, v, bits)
}

func (s *asmState) flagBool(f *Term, name string) *Term {
	if f == nil {
		s.fail("flag %s used while undefined in %s", name, s.fn.name)
	}
	return f
}

func (s *asmState) b2t(c *Term) *Term { return s.b.ZExt(c, 64) }
func (s *asmState) bit(c *Term) *Term { return s.b.Ite(c, s.b.ConstU(1, 1), s.b.ConstU(1, 0)) }
func (s *asmState) is1(f *Term) *Term { return s.b.Eq(f, s.b.ConstU(1, 1)) }

func (s *asmState) setZS(r *Term) {
	s.zf = s.bit(s.b.Eq(r, s.b.ConstU(64, 0)))
	s.sf = s.b.Extract(r, 63, 63)
}

func (s *asmState) cond(cc string) *Term {
	switch cc {
	case "NE":
		return s.b.BNot(s.is1(s.flagBool(s.zf, "ZF")))
	case "EQ":
		return s.is1(s.flagBool(s.zf, "ZF"))
	case "CS", "LO":
		return s.is1(s.flagBool(s.cf, "CF"))
	case "CC", "HS":
		return s.b.BNot(s.is1(s.flagBool(s.cf, "CF")))
	case "PL":
		return s.b.BNot(s.is1(s.flagBool(s.sf, "SF")))
	case "MI":
		return s.is1(s.flagBool(s.sf, "SF"))
	}
	s.fail("condition %s", cc)
	return nil
}

// runAsm executes fn with the given arguments; memory effects go to the heap cells.
func (e *Exec) runAsm(fn *asmFunc, args []aval, feat bool) {
	s := &asmState{e: e, b: e.b, regs: map[string]aval{}, stack: map[int]aval{}, args: args, fn: fn, feat: feat}
	s.regs["SP"] = aval{stk: true, off: 0}
	b := e.b
	idx := 0
	for {
		if idx >= len(fn.instrs) {
			s.fail("fell off the end of %s", fn.name)
		}
		in := fn.instrs[idx]
		idx++
		s.steps++
		e.steps++
		if s.steps > 200000 {
			e.throw("limit", "asm step limit in %s", fn.name)
		}
		a := in.args
		op := in.op
		bits := 64
		if asmTrace {
			fmt.Fprintf(os.Stderr, "ASM %s %v |", op, a)
			for _, r := range []string{"AX", "DX", "R8", "R9", "R10", "R11"} {
				if v, ok := s.regs[r]; ok && v.t != nil && v.t.IsConst() {
					fmt.Fprintf(os.Stderr, " %s=%x", r, v.t.K)
				}
			}
			if s.cf != nil && s.cf.IsConst() {
				fmt.Fprintf(os.Stderr, " CF=%v", s.cf.K)
			}
			fmt.Fprintln(os.Stderr)
		}
		switch {
		case op == "RET":
			return
		case op == "MOVQ", op == "MOVL":
			if op == "MOVL" {
				bits = 32
			}
			v := s.src(a[0], bits)
			if bits == 32 && v.obj == nil && !v.stk {
				v = aval{t: b.ZExt(b.Extract(v.t, 31, 0), 64)}
			}
			s.dst(a[1], v, bits)
		case op == "PUSHQ":
			sp := s.regs["SP"]
			sp.off -= 8
			s.regs["SP"] = sp
			s.stack[sp.off] = s.src(a[0], 64)
		case op == "POPQ":
			sp := s.regs["SP"]
			v, ok := s.stack[sp.off]
			if !ok {
				s.fail("pop of uninitialised slot")
			}
			sp.off += 8
			s.regs["SP"] = sp
			s.dst(a[0], v, 64)
		case op == "ADDQ", op == "ADCQ", op == "SUBQ", op == "SBBQ", op == "ADCXQ", op == "ADOXQ":
			dv := s.src(a[1], 64)
			if dv.stk || dv.obj != nil { // stack pointer adjustment / pointer arithmetic by a constant
				im := s.src(a[0], 64)
				if !im.t.IsConst() {
					s.fail("pointer arithmetic with symbolic value")
				}
				d := int(signedVal(64, im.t.K).Int64())
				if op == "SUBQ" {
					d = -d
				} else if op != "ADDQ" {
					s.fail("%s on pointer", op)
				}
				dv.off += d
				s.regs[a[1]] = dv
				s.cf, s.of, s.zf, s.sf = nil, nil, nil, nil
				continue
			}
			x, y := s.intOf(dv), s.intOf(s.src(a[0], 64))
			var cin *Term = b.ConstU(64, 0)
			switch op {
			case "ADCQ", "SBBQ", "ADCXQ":
				cin = s.b2t(s.flagBool(s.cf, "CF"))
			case "ADOXQ":
				cin = s.b2t(s.flagBool(s.of, "OF"))
			}
			var r, carry *Term
			if op == "SUBQ" || op == "SBBQ" {
				w := b.SubB(x, y, cin)
				r, carry = b.Extract(w, 63, 0), b.Extract(w, 64, 64)
			} else {
				w := b.AddC(x, y, cin)
				r, carry = b.Extract(w, 63, 0), b.Extract(w, 64, 64)
			}
			s.dst(a[1], aval{t: r}, 64)
			switch op {
			case "ADCXQ":
				s.cf = carry
			case "ADOXQ":
				s.of = carry
			default:
				s.cf = carry
				s.of = nil // signed overflow is not tracked (never consumed by the supported kernels without a clear)
				s.setZS(r)
			}
		case op == "MULQ":
			x := s.intOf(s.reg("AX"))
			y := s.intOf(s.src(a[0], 64))
			p := b.Mul(b.ZExt(x, 128), b.ZExt(y, 128))
			s.regs["AX"] = aval{t: b.Extract(p, 63, 0)}
			s.regs["DX"] = aval{t: b.Extract(p, 127, 64)}
			s.cf, s.of, s.zf, s.sf = nil, nil, nil, nil
		case op == "MULXQ":
			x := s.intOf(s.reg("DX"))
			y := s.intOf(s.src(a[0], 64))
			p := b.Mul(b.ZExt(x, 128), b.ZExt(y, 128))
			lo, hi := aval{t: b.Extract(p, 63, 0)}, aval{t: b.Extract(p, 127, 64)}
			s.dst(a[1], lo, 64)
			s.dst(a[2], hi, 64) // if both name the same register the high half wins (Intel SDM)
		case op == "IMULQ", op == "IMUL3Q":
			var x, y *Term
			dstReg := a[len(a)-1]
			if len(a) == 2 {
				x, y = s.intOf(s.src(a[1], 64)), s.intOf(s.src(a[0], 64))
			} else {
				x, y = s.intOf(s.src(a[1], 64)), s.intOf(s.src(a[0], 64))
			}
			s.dst(dstReg, aval{t: b.Mul(x, y)}, 64)
			// CF = OF = the signed 128-bit product does not fit in 64 bits (Intel SDM, IMUL)
			p := b.Mul(b.SExt(x, 128), b.SExt(y, 128))
			ovf := b.BNot(b.Eq(p, b.SExt(b.Extract(p, 63, 0), 128)))
			s.cf, s.of = s.bit(ovf), s.bit(ovf)
			s.zf, s.sf = nil, nil
		case op == "XORL", op == "XORQ", op == "ANDQ", op == "ORQ", op == "ANDL", op == "ORL":
			if op[len(op)-1] == 'L' {
				bits = 32
			}
			x, y := s.intOf(s.src(a[1], bits)), s.intOf(s.src(a[0], bits))
			var r *Term
			switch op[:len(op)-1] {
			case "XOR":
				r = b.Xor(x, y)
			case "AND":
				r = b.And(x, y)
			default:
				r = b.Or(x, y)
			}
			if bits == 32 {
				r = b.ZExt(b.Extract(r, 31, 0), 64)
			}
			s.dst(a[1], aval{t: r}, bits)
			s.cf, s.of = b.ConstU(1, 0), b.ConstU(1, 0)
			s.setZS(r)
		case op == "TESTQ":
			r := b.And(s.intOf(s.src(a[0], 64)), s.intOf(s.src(a[1], 64)))
			s.cf, s.of = b.ConstU(1, 0), b.ConstU(1, 0)
			s.setZS(r)
		case op == "NEGQ":
			x := s.intOf(s.src(a[0], 64))
			r := b.Neg(x)
			s.dst(a[0], aval{t: r}, 64)
			s.cf = s.bit(b.BNot(b.Eq(x, b.ConstU(64, 0))))
			s.of = nil
			s.setZS(r)
		case op == "SHLQ", op == "SHRQ":
			c := s.intOf(s.src(a[0], 64))
			if !c.IsConst() {
				s.fail("%s by register", op)
			}
			if len(a) == 3 {
				// double-precision shift (SHLD/SHRD): SHLQ $k, src, dst / SHRQ $k, src, dst
				kk := int(c.K.Uint64() & 63)
				sv, dv := s.intOf(s.src(a[1], 64)), s.intOf(s.src(a[2], 64))
				r := dv
				if kk > 0 {
					if op == "SHLQ" {
						r = b.Concat(b.Extract(dv, 63-kk, 0), b.Extract(sv, 63, 64-kk))
						s.cf = b.Extract(dv, 64-kk, 64-kk)
					} else {
						r = b.Concat(b.Extract(sv, kk-1, 0), b.Extract(dv, 63, kk))
						s.cf = b.Extract(dv, kk-1, kk-1)
					}
				}
				s.dst(a[2], aval{t: r}, 64)
				s.of = nil
				s.setZS(r)
				continue
			}
			x := s.intOf(s.src(a[1], 64))
			k := b.ConstU(64, c.K.Uint64()&63)
			var r *Term
			if op == "SHLQ" {
				r = b.Shl(x, k)
			} else {
				r = b.LShr(x, k)
			}
			s.dst(a[1], aval{t: r}, 64)
			s.cf, s.of = nil, nil
			if kk := int(c.K.Uint64() & 63); kk > 0 {
				if op == "SHLQ" {
					s.cf = b.Extract(x, 64-kk, 64-kk)
				} else {
					s.cf = b.Extract(x, kk-1, kk-1)
				}
			}
			s.setZS(r)
		case op == "SHLXQ", op == "SHRXQ":
			cnt := s.intOf(s.src(a[0], 64))
			x := s.intOf(s.src(a[1], 64))
			k := b.And(cnt, b.ConstU(64, 63))
			if op == "SHLXQ" {
				s.dst(a[2], aval{t: b.Shl(x, k)}, 64)
			} else {
				s.dst(a[2], aval{t: b.LShr(x, k)}, 64)
			}
		case op == "BTRQ":
			c := s.intOf(s.src(a[0], 64))
			if !c.IsConst() {
				s.fail("BTRQ by register")
			}
			k := int(c.K.Uint64() & 63)
			x := s.intOf(s.src(a[1], 64))
			s.cf = b.Extract(x, k, k)
			s.dst(a[1], aval{t: b.And(x, b.Const(64, new(big.Int).Xor(maskW(64), pow2(k))))}, 64)
		case op == "CLC":
			s.cf = b.ConstU(1, 0)
		case strings.HasPrefix(op, "CMOVQ"), strings.HasPrefix(op, "CMOVL"):
			if op[4] == 'L' {
				bits = 32
			}
			c := s.cond(op[5:])
			sv, dv := s.src(a[0], bits), s.src(a[1], bits)
			if sv.obj != nil || dv.obj != nil || sv.stk || dv.stk {
				s.fail("CMOV of pointers")
			}
			r := b.Ite(c, sv.t, dv.t)
			if bits == 32 {
				r = b.ZExt(b.Extract(r, 31, 0), 64)
			}
			s.dst(a[1], aval{t: r}, bits)
		case strings.HasPrefix(op, "SET"):
			c := s.cond(op[3:])
			rn := a[0]
			if full, ok := map[string]string{"AL": "AX", "BL": "BX", "CL": "CX", "DL": "DX"}[rn]; ok {
				rn = full
			}
			old := s.intOf(s.reg(rn))
			var r *Term
			if hi := b.Extract(old, 63, 8); hi.isZero() {
				r = b.ZExt(s.bit(c), 64) // MOVQ $0, AX; SETcc AL: the flag as a 1-bit term (keeps carry equations linear)
			} else {
				r = b.Concat(hi, b.ZExt(s.bit(c), 8))
			}
			s.dst(rn, aval{t: r}, 64)
		case op == "CMPB":
			// only the CPU-feature dispatch: CMPB ·hasXxx(SB), $0
			if len(a) == 2 && strings.HasSuffix(a[0], "(SB)") && a[1] == "$0" {
				s.zf = s.bit(b.Bool(!s.feat))
				s.cf, s.of, s.sf = b.ConstU(1, 0), b.ConstU(1, 0), b.ConstU(1, 0)
				e.run.assumes["asm CPU-feature dispatch byte "+a[0]+" evaluated for both settings"] = true
			} else {
				s.fail("CMPB %v", a)
			}
		case op == "JEQ", op == "JNE", op == "JMP":
			target, err := strconv.Atoi(a[0])
			if err != nil {
				s.fail("jump target %q", a[0])
			}
			take := true
			if op != "JMP" {
				c := s.cond(op[1:])
				if !c.IsConst() {
					s.fail("conditional jump on symbolic flag in %s", fn.name)
				}
				take = c.isTrue()
			}
			if take {
				j, ok := fn.byPC[target]
				if !ok {
					s.fail("jump target %d not found", target)
				}
				if target <= in.pc {
					s.fail("backward jump in %s", fn.name)
				}
				idx = j
			}
		case op == "LEAQ":
			kind, bv, off := s.addr(a[0])
			switch kind {
			case "obj":
				s.regs[a[1]] = aval{obj: bv.obj, off: off}
			case "stack":
				s.regs[a[1]] = aval{stk: true, off: off}
			default:
				s.fail("LEAQ %s", a[0])
			}
		default:
			s.fail("unsupported instruction %s %v in %s", op, a, fn.name)
		}
	}
}

// zzAsmCall(file, function, feature bool, args ...interface{})
func (e *Exec) asmCallIntrinsic(args []Value) {
	file, fname := e.argStr(args[0]), e.argStr(args[1])
	ft := e.termOf(args[2])
	if !ft.IsConst() {
		e.internal("zzAsmCall: feature flag must be concrete")
	}
	funcs, err := loadAsm(*flagRepo, file)
	if err != nil {
		e.unsupported("%v", err)
	}
	fn := funcs[fname]
	if fn == nil {
		e.unsupported("asm function %s not found in %s", fname, file)
	}
	var av []aval
	for _, v := range e.variadic(args[3]) {
		if iv, ok := v.(*IfaceV); ok {
			v = iv.v
		}
		switch x := v.(type) {
		case *Term:
			av = append(av, aval{t: e.b.ZExt(x, 64)})
		case *Ptr:
			p := e.nonNil(x)
			c := p.alts[0].cell
			if c.elems == nil {
				e.unsupported("zzAsmCall: pointer to non-array")
			}
			// pointer to a struct whose only field is an array (e.g. ff.Fp): descend
			for len(c.elems) == 1 && c.elems[0].elems != nil {
				c = c.elems[0]
			}
			av = append(av, aval{obj: c, off: 0})
		default:
			e.unsupported("zzAsmCall: argument of type %T", v)
		}
	}
	e.run.funcs["asm:"+file+":"+fname+fmt.Sprintf("(feature=%v)", ft.isTrue())] = true
	e.runAsm(fn, av, ft.isTrue())
}
