#!/bin/sh
# runs every claimed property's quick check, prints one line each
cd "$(dirname "$0")"
for p in $(python3 -c "import json;print(' '.join(c['property_id'] for c in json.load(open('MANIFEST.json'))['checks']))"); do
  out=$(./check $p --tier ${1:-quick} 2>&1 | grep "harnesses held" | tr "\n" " "); echo "$p exit-line: $out"
done
