#!/bin/sh
# usage: seedall.sh [seed ...]  -- runs every seeded change (or the named ones) against the quick check of its
# property in a scratch worktree (/tmp/seedrepo), never touching /repo; prints one line per seed
set -u
W=/tmp/seedrepo
git -C /repo worktree remove --force $W 2>/dev/null; git -C /repo worktree prune
git -C /repo worktree add -q --detach $W HEAD || exit 3
seeds="$*"; [ -z "$seeds" ] && seeds=$(ls /verif/seeded)
for s in $seeds; do
  p=$(python3 -c "import json;print(json.load(open('/verif/seeded/$s/meta.json'))['property'])")
  git -C $W apply /verif/seeded/$s/patch.diff || { echo "$s: PATCH DOES NOT APPLY"; continue; }
  out=$(VP_RUN_REPO=$W VERIF_EVIDENCE_DIR=/tmp/seed_ev_all VERIF_REPLAY_DIR=/tmp/seed_replay_all /verif/check $p 2>&1 | grep "harnesses held" | tr '\n' ' ')
  echo "$s [$p]: $out"
  git -C $W checkout -q -- .
done
git -C /repo worktree remove --force $W
