package keccakf1600

// Initialize aligns the interleaved state on the address of its array (unsafe pointer arithmetic,
// which the executor does not model): set "x4init" fixes the alignment case "already aligned"
// (offset 0).  Like the real method it does not clear the state.

//zz:replace (*simd/keccakf1600.StateX4).Initialize set=x4init
func zzStubX4Initialize(s *StateX4, turbo bool) []uint64 {
	s.turbo = turbo
	s.offset = 0
	return s.a[0:100]
}

//zz:replace (*simd/keccakf1600.StateX2).Initialize set=x4init
func zzStubX2Initialize(s *StateX2, turbo bool) []uint64 {
	s.turbo = turbo
	s.offset = 0
	return s.a[0:50]
}
