package sha3

// C15: sponge step lemmas.  The permutation is an uninterpreted function of the 25 lanes (its own
// correctness is ZZ_C15_KeccakF1600_*); Write from an ARBITRARY absorbing state (arbitrary lanes,
// arbitrary buffer fill n, arbitrary buffered bytes) equals absorbing the bytes one at a time in a
// byte-wise reference sponge, hence any split of the input across writes gives the same state
// (induction on the split).  Read from an arbitrary absorbing state pads with the domain byte and
// 0x80 and squeezes like the byte-wise reference.

//zz:replace internal/sha3.KeccakF1600 set=keccakuf
func zzStubKeccakF(a *[25]uint64, turbo bool) {
	if !zzSymbolic() {
		KeccakF1600(a, turbo) // native replay: the real permutation on both sides
		return
	}
	if turbo {
		copy(a[:], zzUF64("keccakp1600_12", 25, a[:]))
	} else {
		copy(a[:], zzUF64("keccakp1600_24", 25, a[:]))
	}
}

type zzRefSponge struct {
	a    [25]uint64
	buf  [maxRate]byte
	n    int
	rate int
}

func (r *zzRefSponge) f() {
	for i := 0; i < r.rate/8; i++ {
		var w uint64
		for k := 0; k < 8; k++ {
			w |= uint64(r.buf[8*i+k]) << (8 * uint(k))
		}
		r.a[i] ^= w
	}
	zzStubKeccakF(&r.a, zzRefTurbo)
	r.n = 0
}

var zzRefTurbo bool

func (r *zzRefSponge) absorbByte(b byte) {
	r.buf[r.n] = b
	r.n++
	if r.n == r.rate {
		r.f()
	}
}

func zzArbitraryAbsorbing(rate, n int, turbo bool) (*State, *zzRefSponge) {
	d := &State{rate: rate, dsbyte: zzU8("dsbyte"), turbo: turbo, outputLen: 32}
	zzFill("a", &d.a)
	d.bufo, d.bufe = 0, n
	zzFill("buffered", d.buf())
	r := &zzRefSponge{a: d.a, rate: rate, n: n}
	copy(r.buf[:n], d.buf())
	zzRefTurbo = turbo
	return d, r
}

func zzWriteLemma(rate int) {
	n := zzPick("fill", 0, 1, rate-1)
	l := zzPick("len", 0, 1, rate-n-1, rate-n, rate-n+1, rate, 2*rate+1)
	d, r := zzArbitraryAbsorbing(rate, n, false)
	p := make([]byte, l)
	zzFill("p", p)
	w, err := d.Write(p)
	zzAssert(w == l && err == nil, "Write reports all bytes written")
	for _, b := range p {
		r.absorbByte(b)
	}
	zzAssert(d.state == spongeAbsorbing && d.bufo == 0 && d.bufe == r.n, "buffer fill after Write = byte-wise sponge")
	zzAssert(d.a == r.a, "lanes after Write = byte-wise sponge")
	zzAssert(zzBytesEq(d.buf(), r.buf[:r.n]), "buffered bytes after Write = byte-wise sponge")
}

//zz: prop=C15 tier=quick backend=bv use=keccakuf timeout=120
func ZZ_C15_sponge_Write_rate136() { zzWriteLemma(136) }

//zz: prop=C15 tier=quick backend=bv use=keccakuf timeout=120
func ZZ_C15_sponge_Write_rate168() { zzWriteLemma(168) }

//zz: prop=C15 tier=thorough backend=bv use=keccakuf timeout=120
func ZZ_C15_sponge_Write_other_rates() { zzWriteLemma(zzPick("rate", 72, 104, 144)) }

func zzReadLemma(rate int, turbo bool) {
	n := zzPick("fill", 0, 1, rate-2, rate-1)
	l := zzPick("outlen", 0, 1, 32, rate-1, rate, rate+1, 2*rate+1)
	d, r := zzArbitraryAbsorbing(rate, n, turbo)
	ds := d.dsbyte
	out := make([]byte, l)
	k, err := d.Read(out)
	zzAssert(k == l && err == nil, "Read fills the whole buffer")
	// reference: pad10*1 with the domain-separation byte (FIPS 202 §5.1 / B.2), absorb, squeeze byte by byte
	r.buf[r.n] = ds
	for i := r.n + 1; i < rate; i++ {
		r.buf[i] = 0
	}
	r.buf[rate-1] ^= 0x80
	r.n = rate
	r.f()
	pos := 0
	for i := 0; i < l; i++ {
		if pos == rate {
			zzStubKeccakF(&r.a, turbo)
			pos = 0
		}
		want := byte(r.a[pos/8] >> (8 * uint(pos%8)))
		zzAssert(out[i] == want, "squeezed byte = byte-wise sponge")
		pos++
	}
}

//zz: prop=C15 tier=quick backend=bv use=keccakuf timeout=120
func ZZ_C15_sponge_Read_rate136() { zzReadLemma(136, false) }

//zz: prop=C15 tier=quick backend=bv use=keccakuf timeout=120
func ZZ_C15_sponge_Read_rate168_turbo() { zzReadLemma(168, true) }
