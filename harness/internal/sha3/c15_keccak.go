package sha3

// C15: KeccakF1600 equals Keccak-p[1600, nr] of FIPS 202 §3.2-3.3 for an arbitrary 1600-bit
// state (nr = 24, and nr = 12 for the TurboSHAKE variant).  The reference below is written from
// the specification: rho offsets and the pi permutation from their defining recurrences, round
// constants from the rc(t) LFSR of Algorithm 5.

func zzRotl(x uint64, n uint) uint64 {
	n %= 64
	if n == 0 {
		return x
	}
	return x<<n | x>>(64-n)
}

// rc(t): FIPS 202 Algorithm 5
func zzRCbit(t int) uint64 {
	if t%255 == 0 {
		return 1
	}
	r := uint16(0x80) // R = 10000000 (bit 0 is the leftmost of the spec => use 9-bit window)
	// spec: R = 10000000; for i = 1..t mod 255: R = 0||R; R[0]^=R[8]; R[4]^=R[8]; R[5]^=R[8]; R[6]^=R[8]; R = Trunc8[R]
	// represent R[0..7] with R[0] as the most significant of 8 bits
	for i := 1; i <= t%255; i++ {
		// R = 0 || R  (9 bits, R[8] is the old R[7])
		r9 := r // bits: R[1..8] = old R[0..7]; R[0] = 0
		b8 := r9 & 1
		// positions in 9-bit string R[0..8]: R[k] is bit (8-k)
		if b8 == 1 {
			r9 ^= 1 << 8 // R[0]
			r9 ^= 1 << 4 // R[4]
			r9 ^= 1 << 3 // R[5]
			r9 ^= 1 << 2 // R[6]
		}
		r = r9 >> 1 // Trunc8: keep R[0..7]
	}
	return uint64(r>>7) & 1 // R[0]
}

func zzRoundConstant(ir int) uint64 {
	var rc uint64
	for j := 0; j <= 6; j++ {
		rc |= zzRCbit(j+7*ir) << ((1 << uint(j)) - 1)
	}
	return rc
}

func zzKeccakRoundRef(a *[25]uint64, ir int) {
	// theta
	var c, d [5]uint64
	for x := 0; x < 5; x++ {
		c[x] = a[x] ^ a[x+5] ^ a[x+10] ^ a[x+15] ^ a[x+20]
	}
	for x := 0; x < 5; x++ {
		d[x] = c[(x+4)%5] ^ zzRotl(c[(x+1)%5], 1)
	}
	for i := 0; i < 25; i++ {
		a[i] ^= d[i%5]
	}
	// rho and pi: (x,y) starts at (1,0); offsets (t+1)(t+2)/2; (x,y) <- (y, 2x+3y)
	var b [25]uint64
	b[0] = a[0]
	x, y := 1, 0
	for t := 0; t < 24; t++ {
		r := uint(((t + 1) * (t + 2) / 2) % 64)
		// pi: A'[x', y'] = A[x, y] with (x', y') = (y, 2x+3y)
		nx, ny := y, (2*x+3*y)%5
		b[nx+5*ny] = zzRotl(a[x+5*y], r)
		x, y = nx, ny
	}
	// chi
	for yy := 0; yy < 5; yy++ {
		for xx := 0; xx < 5; xx++ {
			a[xx+5*yy] = b[xx+5*yy] ^ (^b[(xx+1)%5+5*yy] & b[(xx+2)%5+5*yy])
		}
	}
	// iota
	a[0] ^= zzRoundConstant(ir)
}

func zzKeccakCheck(turbo bool) {
	var a [25]uint64
	zzFill("a", &a)
	ref := a
	KeccakF1600(&a, turbo)
	start := 0
	if turbo {
		start = 12
	}
	for ir := start; ir < 24; ir++ {
		zzKeccakRoundRef(&ref, ir)
	}
	for i := 0; i < 25; i++ {
		zzAssert(a[i] == ref[i], "KeccakF1600 lane equals Keccak-p[1600] reference")
	}
}

//zz: prop=C15 tier=quick backend=bv timeout=120 budget=600
func ZZ_C15_KeccakF1600_12rounds() { zzKeccakCheck(true) }

//zz: prop=C15 tier=quick backend=bv timeout=120 budget=600
func ZZ_C15_KeccakF1600_24rounds() { zzKeccakCheck(false) }

// round-constant table against the LFSR definition (concrete)
//
//zz: prop=C15 tier=quick backend=bv
func ZZ_C15_Keccak_round_constants() {
	for ir := 0; ir < 24; ir++ {
		zzAssert(RC[ir] == zzRoundConstant(ir), "RC table = FIPS 202 rc(t) LFSR")
	}
}
