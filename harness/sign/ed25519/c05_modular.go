package ed25519

// C05: Ed25519 scalar arithmetic modulo L = 2^252 + 27742317777372353535851937790883648493.

const zzL = "0x1000000000000000000000000000000014def9dea2f79cd65812631a5cf5d3ed"

// red512(full): x mod L for every 512-bit x, canonical
//
//zz: prop=C05 tier=deep backend=lia timeout=3000 budget=7200
func ZZ_C05_red512_full() {
	var x [8]uint64
	zzFill("x", &x)
	v := zzWLE64(x[:])
	red512(&x, true)
	r := zzWLE64(x[:4])
	zzAssert(zzWCong(r, v, zzL), "red512(full): congruent mod L")
	zzAssert(zzWLt(r, zzWConst(zzL)), "red512(full): result < L")
	zzAssert(x[4] == 0 && x[5] == 0 && x[6] == 0 && x[7] == 0, "red512(full): upper words cleared")
}

// red512(!full): 256-bit input
//
//zz: prop=C05 also=C12 tier=quick backend=lia timeout=300
func ZZ_C05_red512_half() {
	var x [8]uint64
	zzFill("x", &x)
	v := zzWLE64(x[:4])
	red512(&x, false)
	r := zzWLE64(x[:4])
	zzAssert(zzWCong(r, v, zzL), "red512(256-bit): congruent mod L")
	zzAssert(zzWLt(r, zzWConst(zzL)), "red512(256-bit): result < L")
}

// calculateS: s = (r + k*a) mod L, canonical, for all 32-byte r, k, a
//
//zz: prop=C05 tier=deep backend=lia timeout=1500 budget=3600
func ZZ_C05_calculateS() {
	r, k, a, s := make([]byte, 32), make([]byte, 32), make([]byte, 32), make([]byte, 32)
	zzFillLimbs("r", r)
	zzFillLimbs("k", k)
	zzFillLimbs("a", a)
	want := zzWAdd(zzWLE(r), zzWMulLimbs(k, a))
	calculateS(s, r, k, a)
	zzAssert(zzWCong(zzWLE(s), want, zzL), "calculateS: s ≡ r + k*a mod L")
	zzAssert(zzWLt(zzWLE(s), zzWConst(zzL)), "calculateS: s < L")
}

// the multiply-accumulate part of calculateS alone (exact 512-bit value), red512 proved separately
//
//zz: prop=C05 tier=deep backend=lia timeout=3000 budget=7200
func ZZ_C05_reduceModOrder_bytes() {
	k := make([]byte, 64)
	zzFillLimbs("k", k)
	v := zzWLE(k)
	reduceModOrder(k, true)
	zzAssert(zzWCong(zzWLE(k[:32]), v, zzL), "reduceModOrder(64 bytes): congruent")
	zzAssert(zzWLt(zzWLE(k[:32]), zzWConst(zzL)), "reduceModOrder: canonical")
	for i := 32; i < 64; i++ {
		zzAssert(k[i] == 0, "reduceModOrder: upper half cleared")
	}
}

// S < L check of verification equals integer comparison, for every 32-byte string
//
//zz: prop=C05 also=C02 tier=quick backend=lia timeout=120
func ZZ_C05_isLessThanOrder() {
	x := make([]byte, 32)
	zzFill("x", x)
	zzAssert(zzIff(isLessThanOrder(x), zzWLt(zzWLE(x), zzWConst(zzL))), "isLessThanOrder(x) iff x < L")
}

// quick-tier instance of red512(full): inputs below 2^320 (the general 512-bit statement
// is the thorough-tier harness ZZ_C05_red512_full)
//
//zz: prop=C05 also=C12 tier=quick backend=lia timeout=300
func ZZ_C05_red512_full_320bit() { zzRed512OneWord(4) }

//zz: prop=C05 also=C12 tier=thorough backend=lia timeout=3000 budget=7200
func ZZ_C05_red512_full_word5() { zzRed512OneWord(5) }

//zz: prop=C05 tier=deep backend=lia timeout=3000 budget=7200
func ZZ_C05_red512_full_word6() { zzRed512OneWord(6) }

//zz: prop=C05 tier=deep backend=lia timeout=3000 budget=7200
func ZZ_C05_red512_full_word7() { zzRed512OneWord(7) }

func zzRed512OneWord(w int) {
	var x [8]uint64
	zzFill("x", &x)
	for i := 4; i < 8; i++ {
		if i != w {
			x[i] = 0
		}
	}
	v := zzWLE64(x[:])
	red512(&x, true)
	r := zzWLE64(x[:4])
	zzAssert(zzWCong(r, v, zzL), "red512(full, one upper word): congruent mod L")
	zzAssert(zzWLt(r, zzWConst(zzL)), "red512(full, one upper word): result < L")
}
