package ed25519

// C02/C05/C13: the signed-digit recoding used by fixed-base multiplication (key generation and
// the nonce commitment R of every signature).  For every 256-bit scalar k the digits recombine to
// k (k odd) or k + L (k even), the first d digits are +-1 and the others lie in {-1,0,1}.
//
//zz: prop=C13 tier=deep backend=lia timeout=3000 budget=7200
func ZZ_C13_ed25519_mLSBRecoding() {
	const ee = (fxT + fxW*fxV - 1) / (fxW * fxV)
	const dd = ee * fxV
	const ll = dd * fxW
	k := make([]byte, paramB)
	zzFillLimbs("k", k)
	kk := zzWLE(k)
	odd := k[0]&1 == 1
	L := make([]int8, ll+1)
	mLSBRecoding(L, k)
	sum := zzWConst("0")
	for i := 0; i <= ll; i++ {
		sum = zzWAdd(sum, zzWShl(zzWS(int64(L[i])), i))
	}
	want := zzWIte(odd, kk, zzWAdd(kk, zzWConst(zzL)))
	zzAssert(zzWEq(sum, want), "digits recombine to k (odd) or k + L (even)")
	ok := []bool{}
	for i := 0; i < dd; i++ {
		ok = append(ok, zzOr2(L[i] == 1, L[i] == -1))
	}
	for i := dd; i < ll; i++ {
		ok = append(ok, zzOr(L[i] == 1, L[i] == -1, L[i] == 0))
	}
	zzAssert(zzAnd(ok...), "digit ranges")
	zzAssert(L[ll] >= 0 && L[ll] <= 1, "final carry digit in {0,1}")
}

// div2subY lemma: x' = floor(x/2) - y for y in {0,-1} on l words (no borrow lost)
//
//zz: prop=C13 tier=quick backend=lia timeout=300
func ZZ_C13_ed25519_div2subY() {
	x := make([]uint64, numWords64+1)
	zzFill("x", x)
	neg := zzBool("yneg")
	y := int64(0)
	if neg {
		y = -1
	}
	// precondition of the caller: the value fits comfortably (top bits clear) so that +1 cannot overflow
	zzAssume(x[numWords64-1] < 1<<62)
	v := zzWLE64(x[:numWords64])
	div2subY(x, y, numWords64)
	got := zzWLE64(x[:numWords64])
	want := zzWSub(zzWDiv(v, "2"), zzWS(y))
	zzAssert(zzWEq(got, want), "div2subY: x' = floor(x/2) - y")
}

// condAddOrderN lemma: x' = x + L if x is even, x otherwise (5 words, no carry lost)
//
//zz: prop=C13 tier=quick backend=lia timeout=300
func ZZ_C13_ed25519_condAddOrderN() {
	var x [numWords64 + 1]uint64
	zzFill("x", &x)
	x[numWords64] = 0
	v := zzWLE64(x[:])
	odd := x[0]&1 == 1
	condAddOrderN(&x)
	want := zzWIte(odd, v, zzWAdd(v, zzWConst(zzL)))
	zzAssert(zzWEq(zzWLE64(x[:]), want), "condAddOrderN: x + L if even")
}

// one digit step of the recoding loop from an arbitrary state m (< 2^250) and an arbitrary sign b:
// digit = b*(m&1), m' = (m - digit)/2 exactly
//
//zz: prop=C13 tier=quick backend=lia timeout=300
func ZZ_C13_ed25519_recoding_step() {
	m := make([]uint64, numWords64+1)
	zzFill("m", m)
	zzAssume(m[numWords64-1] < 1<<58)
	neg := zzBool("bneg")
	b := int8(1)
	if neg {
		b = -1
	}
	v := zzWLE64(m[:numWords64])
	d := b * int8(m[0]&0x1)
	div2subY(m, int64(d>>1), numWords64)
	got := zzWLE64(m[:numWords64])
	// 2*m' + d = m
	zzAssert(zzWEq(zzWAdd(zzWShl(got, 1), zzWS(int64(d))), v), "recoding step: m = 2*m' + digit")
}

// The same lemmas registered under C02 / C05: fixed-base multiplication computes the public key
// and the commitment R of every signature, so a recoding defect breaks "honest signatures verify"
// and "signature bytes equal RFC 8032" for the scalars that trigger it.
//
//zz: prop=C02 tier=quick backend=lia timeout=300
func ZZ_C02_ed25519_fixedbase_recoding_lemmas() {
	switch zzPick("lemma", 0, 1, 2) {
	case 0:
		ZZ_C13_ed25519_div2subY()
	case 1:
		ZZ_C13_ed25519_condAddOrderN()
	default:
		ZZ_C13_ed25519_recoding_step()
	}
}

//zz: prop=C05 tier=quick backend=lia timeout=300
func ZZ_C05_ed25519_fixedbase_recoding_lemmas() {
	switch zzPick("lemma", 0, 1, 2) {
	case 0:
		ZZ_C13_ed25519_div2subY()
	case 1:
		ZZ_C13_ed25519_condAddOrderN()
	default:
		ZZ_C13_ed25519_recoding_step()
	}
}
