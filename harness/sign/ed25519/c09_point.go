package ed25519

import fp "github.com/cloudflare/circl/math/fp25519"

// C09/C05: Ed25519 point decoding (RFC 8032 5.1.3) for every 32-byte string and for whatever value
// the square-root routine returns (set "sqrtfree": fp.InvSqrt yields an arbitrary element and an
// arbitrary verdict; its correctness is field arithmetic, C12): an accepted encoding has y < p, the
// decoded x is plus or minus the root and - after reduction - has exactly the encoded sign, so that
// the point re-serialises to the parsed bytes; in particular x = 0 with the sign bit set is refused.

var zzRoot fp.Elt

//zz:replace math/fp25519.InvSqrt set=sqrtfree
func zzStubInvSqrt(z, x, y *fp.Elt) bool {
	zzHavoc(z)
	zzRoot = *z
	return zzFreshBool()
}

// the byte-wise comparison with its early-exit loop is decided on its own (next harness); in the
// decoding harness it is a free verdict whose arguments are recorded (set "ltfree")

var zzLtX, zzLtY []byte

//zz:replace sign/ed25519.isLessThan set=ltfree
func zzStubIsLessThan(x, y []byte) bool {
	zzLtX, zzLtY = append([]byte{}, x...), append([]byte{}, y...)
	return zzFreshBool()
}

//zz: prop=C09 also=C05 tier=quick backend=bv timeout=120
func ZZ_C09_ed25519_isLessThan_p() {
	y := make([]byte, 32)
	zzFill("y", y)
	p := fp.P()
	zzAssert(zzIff(isLessThan(y, p[:]), zzWLt(zzWLE(y), zzWConst(zzP25519))), "isLessThan(y, p) iff y < p as integers")
}

const zzP25519 = "0x7fffffffffffffffffffffffffffffffffffffffffffffffffffffffffffffed"

//zz: prop=C09 also=C05 tier=quick backend=lia use=sqrtfree,ltfree timeout=300 maxpaths=4000
func ZZ_C09_ed25519_point_decoding_sign_rule() {
	if !zzSymbolic() {
		zzModelOnly() // the square root is a free value here: no native counterpart
	}
	k := make([]byte, 32)
	zzFill("k", k)
	var P pointR1
	if !P.FromBytes(k) {
		return
	}
	zzReach("accepted")
	signX := k[31] >> 7
	y := append([]byte{}, k...)
	y[31] &= 0x7F
	pp := fp.P()
	zzAssert(zzAnd2(zzBytesEq(zzLtX, y), zzBytesEq(zzLtY, pp[:])), "the range check compares the masked y with p")
	zzAssert(zzBytesEq(P.y[:], y), "decoded y = encoded y")
	x := zzWLE(P.x[:])
	root := zzWLE(zzRoot[:])
	zzAssert(zzOr2(zzWCong(x, root, zzP25519), zzWCong(zzWAdd(x, root), zzWConst("0"), zzP25519)), "decoded x = +-root mod p")
	zzAssert(zzWEq(zzWMod(zzWMod(x, zzP25519), "2"), zzWU(uint64(signX))), "sign of the reduced decoded x = encoded sign bit (x = 0 with sign 1 refused)")
}
