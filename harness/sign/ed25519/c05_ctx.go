package ed25519

import "hash"

// C02/C05: verification refuses contexts longer than 255 bytes (RFC 8032 §5.1: the context is at
// most 255 octets; dom2 encodes its length in ONE octet, so a longer context would alias a shorter
// one).  Group arithmetic and SHA-512 are stubbed: the verdict of the final comparison is free, so
// "false" must come from the explicit input checks.

type zzHash struct{ data []byte }

func (h *zzHash) Write(p []byte) (int, error) { h.data = append(h.data, p...); return len(p), nil }
func (h *zzHash) Sum(b []byte) []byte         { return append(b, zzUF("SHA512", 64, h.data)...) }
func (h *zzHash) Reset()                      { h.data = nil }
func (h *zzHash) Size() int                   { return 64 }
func (h *zzHash) BlockSize() int              { return 128 }

//zz:replace crypto/sha512.New set=edstubs
func zzStubSha512New() hash.Hash { return &zzHash{} }

//zz:replace (*sign/ed25519.pointR1).FromBytes set=edstubs
func zzStubFromBytes(P *pointR1, k []byte) bool { return zzFreshBool() }

//zz:replace (*sign/ed25519.pointR1).neg set=edstubs
func zzStubNeg(P *pointR1) {}

//zz:replace (*sign/ed25519.pointR1).doubleMult set=edstubs
func zzStubDoubleMult(P *pointR1, Q *pointR1, n, m []byte) {}

//zz:replace (*sign/ed25519.pointR1).ToBytes set=edstubs
func zzStubToBytes(P *pointR1, k []byte) error {
	zzHavoc(k)
	return nil
}

//zz: prop=C05 tier=quick backend=bv use=edstubs timeout=120
func ZZ_C05_ed25519_verify_context_length() {
	pub := make([]byte, PublicKeySize)
	sig := make([]byte, SignatureSize)
	zzFill("pub", pub)
	zzFill("sig", sig)
	n := zzPick("ctxlen", 0, 1, 255, 256, 257)
	ctx := make([]byte, n)
	zzFill("ctx", ctx)
	msg := []byte("m")
	ok := VerifyPh(pub, msg, sig, string(ctx))
	if n > ContextMaxSize {
		zzAssert(!ok, "Ed25519ph verification refuses a context longer than 255 bytes")
	}
	ok2 := VerifyWithCtx(pub, msg, sig, string(ctx))
	if n > ContextMaxSize || n == 0 {
		zzAssert(!ok2, "Ed25519ctx verification refuses an empty or over-long context")
	}
}

//zz: prop=C02 tier=quick backend=bv use=edstubs timeout=120
func ZZ_C02_ed25519_verify_context_length() { ZZ_C05_ed25519_verify_context_length() }
