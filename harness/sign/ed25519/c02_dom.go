package ed25519

// C02/C05: the domain-separation prefix dom2(F, C) of RFC 8032 5.1: for Ed25519ctx (F = 0) and
// Ed25519ph (F = 1) the hash input starts with "SigEd25519 no Ed25519 collisions" || octet(F) ||
// octet(len(C)) || C; pure Ed25519 (no prehash, empty context) has no prefix.  So the three
// variants never hash the same bytes for the same (message, context).  Symbolic context bytes,
// lengths 0, 1, 3 and 255; the writer is a recorder.

type zzRecWriter struct{ buf []byte }

func (w *zzRecWriter) Write(p []byte) (int, error) { w.buf = append(w.buf, p...); return len(p), nil }

//zz: prop=C02 also=C05 tier=quick backend=bv timeout=120
func ZZ_C02_ed25519_dom2_prefix_is_RFC8032() {
	ctx := make([]byte, zzPick("ctxlen", 0, 1, 3, 255))
	zzFill("ctx", ctx)
	preHash := zzPick("prehash", 0, 1) == 1
	w := &zzRecWriter{}
	writeDom(w, ctx, preHash)
	var want []byte
	if preHash || len(ctx) > 0 {
		f := byte(0)
		if preHash {
			f = 1
		}
		want = append([]byte("SigEd25519 no Ed25519 collisions"), f, byte(len(ctx)))
		want = append(want, ctx...)
	}
	zzAssert(zzBytesEq(w.buf, want), "dom2(F, C) = prefix || octet(F) || octet(len C) || C, with F = 1 exactly for the prehash variant")
}
