package bls

// C11 (schedules): a BLS private key shared by two goroutines whose first PublicKey() calls
// overlap: each obtains the public key computed by a call running alone, and the calls do not
// race.  Thread A is suspended after each of its first stores in turn; the scalar is symbolic and
// scalar multiplication is an uninterpreted function (set "g1smuf").

func zzPublicKeyTwoThreads[K KeyGroup]() {
	var ref, k PrivateKey[K]
	zzFill("key", &k.key)
	ref.key = k.key
	want := *ref.PublicKey()
	var ra, rb PublicKey[K]
	at := zzPick("suspendAfterStore", 1, 2, 3, 4, 5, 6, 7, 8, 9, 10, 11, 12, 13, 14, 15, 16, 17, 18, 19, 20, 21, 22, 23, 24, 25, 26, 27, 28, 29, 30, 1000)
	pre := zzInterleave(
		func() { ra = *k.PublicKey() },
		func() { rb = *k.PublicKey() },
		at)
	if pre {
		zzReach("a schedule in which thread B runs while thread A is suspended")
	}
	zzAssert(zzSame(&ra, &want), "thread A obtains the public key computed alone")
	zzAssert(zzSame(&rb, &want), "thread B obtains the public key computed alone")
}

//zz: prop=C11 tier=quick backend=bv use=g1smuf timeout=120
func ZZ_C11_bls_PublicKey_two_threads_G1() { zzPublicKeyTwoThreads[G1]() }

//zz: prop=C11 tier=quick backend=bv use=g1smuf timeout=120
func ZZ_C11_bls_PublicKey_two_threads_G2() { zzPublicKeyTwoThreads[G2]() }
