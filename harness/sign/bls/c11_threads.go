package bls

// C11 (schedules): a BLS private key shared by two goroutines whose first PublicKey() calls
// overlap: each obtains the public key computed by a call running alone, and the calls do not
// race.  Thread A is suspended after each of its first stores in turn; the scalar is symbolic and
// scalar multiplication is an uninterpreted function (set "g1smuf").

func zzPublicKeyTwoThreads[K KeyGroup]() {
	var ref, k PrivateKey[K]
	zzFill("key", &k.key)
	ref.key = k.key
	want := *ref.PublicKey()
	var ra, rb PublicKey[K]
	at := zzPick("suspendAfterStore", 1, 2, 3, 4, 5, 6, 7, 8, 9, 10, 11, 12, 13, 14, 15, 16, 17, 18, 19, 20, 21, 22, 23, 24, 25, 26, 27, 28, 29, 30, 1000)
	pre := zzInterleave(
		func() { ra = *k.PublicKey() },
		func() { rb = *k.PublicKey() },
		at)
	if pre {
		zzReach("a schedule in which thread B runs while thread A is suspended")
	}
	zzAssert(zzSame(&ra, &want), "thread A obtains the public key computed alone")
	zzAssert(zzSame(&rb, &want), "thread B obtains the public key computed alone")
}

//zz: prop=C11 tier=quick backend=bv use=g1smuf timeout=120
func ZZ_C11_bls_PublicKey_two_threads_G1() { zzPublicKeyTwoThreads[G1]() }

//zz: prop=C11 tier=quick backend=bv use=g1smuf timeout=120
func ZZ_C11_bls_PublicKey_two_threads_G2() { zzPublicKeyTwoThreads[G2]() }

// C02: "verification returns false for any string obtained from a valid signature by truncating or
// appending bytes": whatever the pairing equation says (it is a free verdict here, set "blsfree";
// point decoding is a free verdict too, set "g12free"), Verify accepts only signature strings of
// exactly the size their header byte announces (48/96 bytes for signatures in G1, 96/192 in G2).
// Every length from one below the compressed size to one above the uncompressed size.

func zzVerifySigLength[K KeyGroup](sizeC, sizeU int) {
	if !zzSymbolic() {
		zzModelOnly() // decoding and pairing are free verdicts
	}
	n := zzPick("siglen", sizeC-1, sizeC, sizeC+1, sizeU-1, sizeU, sizeU+1)
	sig := make([]byte, n)
	zzFill("sig", sig)
	var pub PublicKey[K]
	if Verify(&pub, []byte("m"), sig) {
		want := sizeU
		if sig[0]>>7 == 1 {
			want = sizeC
		}
		zzAssert(n == want, "an accepted signature has exactly the size its header byte announces (no appended bytes)")
	}
}

//zz: prop=C02 tier=quick backend=bv use=g12free,blsfree timeout=300
func ZZ_C02_bls_Verify_signature_length_keyG1() { zzVerifySigLength[G1](96, 192) }

//zz: prop=C02 tier=quick backend=bv use=g12free,blsfree timeout=300
func ZZ_C02_bls_Verify_signature_length_keyG2() { zzVerifySigLength[G2](48, 96) }
