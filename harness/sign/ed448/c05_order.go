package ed448

// C05/C02: Ed448 verification "rejects S >= L" (RFC 8032 5.2.7): the range check of the 57-byte
// scalar half of a signature is exactly the integer comparison with the group order
// L = 2^446 - 0x8335dc163bb124b65129c96fde933d8d723a70aadc873d6d54a7bb0d, for every byte string
// (the constant below is computed from the RFC, not taken from the code).

const zzL448 = "0x3fffffffffffffffffffffffffffffffffffffffffffffffffffffff7cca23e9c44edb49aed63690216cc2728dc58f552378c292ab5844f3"

//zz: prop=C05 also=C02 tier=quick backend=bv timeout=300
func ZZ_C05_ed448_isLessThanOrder() {
	x := make([]byte, paramB)
	zzFill("x", x)
	zzAssert(zzIff(isLessThanOrder(x), zzWLt(zzWLE(x), zzWConst(zzL448))), "isLessThanOrder(S) iff S < L as integers (S = L, S = L + small and a non-zero 57th byte refused)")
}
