package eddilithium2

import (
	"github.com/cloudflare/circl/sign/dilithium/mode2"
	"github.com/cloudflare/circl/sign/ed25519"
)

// component verifiers as free verdicts: what is decided is the length handling of the hybrid

//zz:replace sign/dilithium/mode2.Verify set=compfree
func zzStubDilithiumVerify(pk *mode2.PublicKey, msg []byte, signature []byte) bool {
	return zzFreshBool()
}

//zz:replace sign/ed25519.Verify set=compfree
func zzStubEdVerify(pk ed25519.PublicKey, msg, signature []byte) bool { return zzFreshBool() }

// C02/C10: verification returns false - and never panics - for signatures of every length
//
//zz: prop=C10 tier=quick backend=bv use=compfree
func ZZ_C10_eddilithium2_Verify_lengths() {
	n := zzPick("len", 0, 1, mode2.SignatureSize-1, mode2.SignatureSize, mode2.SignatureSize+1, SignatureSize-1, SignatureSize, SignatureSize+1)
	sig := make([]byte, n)
	var pk PublicKey
	ok := Verify(&pk, []byte("m"), sig)
	if n != SignatureSize && n < mode2.SignatureSize {
		zzAssert(!ok, "a signature shorter than the Dilithium part is refused")
	}
}

//zz: prop=C02 tier=quick backend=bv use=compfree
func ZZ_C02_eddilithium2_Verify_lengths() { ZZ_C10_eddilithium2_Verify_lengths() }
