package internal

import (
	"github.com/cloudflare/circl/internal/sha3"
	common "github.com/cloudflare/circl/sign/internal/dilithium"
)

// C04: ExpandMask (FIPS 204 Alg. 34): y[r] is unpacked from SHAKE256(rho'' || IntegerToBytes(kappa + r, 2))
// for every seed and every 16-bit kappa, i.e. the counter is a 16-bit little-endian integer with the
// carry into its high byte.  The XOF is an uninterpreted function of the absorbed bytes (set
// "xofrec": Write records, Read returns UF(transcript)); BitUnpack is the real code on both sides.

var zzAbsorbed []byte

//zz:replace (*internal/sha3.State).Write set=xofrec
func zzStubRecWrite(d *sha3.State, p []byte) (int, error) {
	zzAbsorbed = append(zzAbsorbed, p...)
	return len(p), nil
}

//zz:replace (*internal/sha3.State).Read set=xofrec
func zzStubRecRead(d *sha3.State, out []byte) (int, error) {
	if !zzSymbolic() {
		panic("ZZ-MODEL-ONLY: XOF is an uninterpreted function here")
	}
	copy(out, zzUF("shake256", len(out), zzAbsorbed))
	zzAbsorbed = nil
	return len(out), nil
}

//zz: prop=C04 tier=quick backend=bv use=xofrec timeout=300
func ZZ_C04_ExpandMask_counter_mode3() {
	if !zzSymbolic() {
		zzModelOnly()
	}
	var seed [64]byte
	zzFill("seed", &seed)
	kappa := zzU16("kappa")
	var y VecL
	zzAbsorbed = nil
	VecLDeriveUniformLeGamma1(&y, &seed, kappa)
	ok := []bool{}
	for r := 0; r < L; r++ {
		n := kappa + uint16(r)
		in := append(append([]byte{}, seed[:]...), byte(n), byte(n>>8))
		buf := zzUF("shake256", PolyLeGamma1Size, in)
		var ref common.Poly
		PolyUnpackLeGamma1(&ref, buf)
		ok = append(ok, y[r] == ref)
	}
	zzAssert(zzAnd(ok...), "y[r] = BitUnpack(H(rho'' || IntegerToBytes(kappa + r, 2)))")
}
