package internal

import (
	common "github.com/cloudflare/circl/sign/internal/dilithium"
)

// C04: rounding helpers against FIPS 204 Algorithms 36 (Decompose), 39 (MakeHint), 40 (UseHint),
// for every r in [0,q) and every hint bit.

// FIPS 204 Algorithm 36 with r0 returned as r0+q (mod q representative in [0,q)) to match the API.
func zzDecomposeRef(r uint32) (r0 int32, r1 uint32) {
	const twoG2 = int32(2 * Gamma2)
	rp := int32(r) // r mod q, already in [0,q)
	r0 = rp % twoG2 // in [0, 2γ2)
	if r0 > int32(Gamma2) {
		r0 -= twoG2 // mod± : (-γ2, γ2]
	}
	if rp-r0 == int32(common.Q)-1 {
		r1 = 0
		r0 = r0 - 1
	} else {
		r1 = uint32((rp - r0) / twoG2)
	}
	return
}

//zz: prop=C04 tier=quick backend=bv timeout=300
func ZZ_C04_decompose_mode3() {
	a := zzU32("a")
	zzAssume(a < common.Q)
	a0plusQ, a1 := decompose(a)
	r0, r1 := zzDecomposeRef(a)
	zzAssert(a1 == r1, "decompose: high bits = FIPS 204 Decompose r1")
	want0 := uint32(r0 + int32(common.Q))
	zzAssert(a0plusQ == want0, "decompose: low bits + q = FIPS 204 Decompose r0 + q")
}

//zz: prop=C04 tier=quick backend=bv timeout=300
func ZZ_C04_useHint_mode3() {
	r := zzU32("r")
	zzAssume(r < common.Q)
	h := zzU32("h")
	zzAssume(h <= 1)
	// the function the verifier uses is PolyUseHint (the scalar useHint helper is only exercised by
	// tests and is specific to gamma2 = (q-1)/32); one symbolic coefficient at a chosen index
	idx := zzPick("index", 0, 1, 255)
	var p, q, hint common.Poly
	q[idx], hint[idx] = r, h
	PolyUseHint(&p, &q, &hint)
	got := p[idx]
	// FIPS 204 Algorithm 40
	const m = (common.Q - 1) / (2 * Gamma2)
	r0, r1 := zzDecomposeRef(r)
	want := r1
	if h == 1 {
		if r0 > 0 {
			want = (r1 + 1) % m
		} else {
			want = (r1 + m - 1) % m
		}
	}
	zzAssert(got == want, "useHint = FIPS 204 UseHint")
}

// MakeHint as used by signing: with v = w - c*s2 (||LowBits(v)|| < γ2 - β, checked by the signing
// loop before) and ||c*t0|| < γ2, makeHint(LowBits(v) + c*t0, HighBits(v)) must equal FIPS 204
// MakeHint(-c*t0, v + c*t0) = [HighBits(v + c*t0) != HighBits(v)].
//
//zz: prop=C04 tier=quick backend=bv timeout=300
func ZZ_C04_makeHint_mode3() {
	v := zzU32("v")
	zzAssume(v < common.Q)
	ct0 := zzI32("ct0")
	zzAssume(ct0 > -int32(Gamma2) && ct0 < int32(Gamma2))
	v0, v1 := zzDecomposeRef(v)
	zzAssume(v0 > -int32(Gamma2-Beta) && v0 < int32(Gamma2-Beta))
	z := v0 + ct0 // w0 - c*s2 + c*t0 as a centred integer, |z| < 2γ2
	z0 := uint32(z)
	if z < 0 {
		z0 = uint32(z + int32(common.Q))
	}
	got := makeHint(z0, v1)
	rr := int32(v) + ct0
	if rr < 0 {
		rr += int32(common.Q)
	}
	if rr >= int32(common.Q) {
		rr -= int32(common.Q)
	}
	_, hr := zzDecomposeRef(uint32(rr))
	want := uint32(0)
	if hr != v1 {
		want = 1
	}
	zzAssert(got == want, "makeHint = FIPS 204 MakeHint(-ct0, w - cs2 + ct0)")
	// and the verifier recovers HighBits(v) from the hint
	var p, q, hint common.Poly
	q[0], hint[0] = uint32(rr), got
	PolyUseHint(&p, &q, &hint)
	zzAssert(p[0] == v1, "UseHint(h, w - cs2 + ct0) = HighBits(w - cs2)")
}
