package internal

import (
	"github.com/cloudflare/circl/internal/sha3"
	common "github.com/cloudflare/circl/sign/internal/dilithium"
)

// C04: rejection step of RejNTTPoly / CoeffFromThreeBytes (FIPS 204 Alg. 14/30).  The XOF is
// replaced by a stream whose candidate number POS is symbolic (3 arbitrary bytes) and all other
// candidates are the constant 1: the candidate is used iff its 23-bit value is < q, otherwise it
// is skipped and the next candidate takes its place; every output coefficient is < q.

var zzStreamPos int
var zzStreamBytes [3]byte
var zzStreamCalls int

//zz:replace (*internal/sha3.State).Read set=stream1
func zzStubShakeRead(d *sha3.State, out []byte) (int, error) {
	if !zzSymbolic() {
		panic("ZZ-MODEL-ONLY: stubbed XOF stream")
	}
	for i := range out {
		out[i] = 0
		if i%3 == 0 {
			out[i] = 1
		}
	}
	if zzStreamCalls == 0 {
		copy(out[3*zzStreamPos:], zzStreamBytes[:])
	}
	zzStreamCalls++
	return len(out), nil
}

//zz:replace (*internal/sha3.State).Write set=stream1
func zzStubShakeWrite(d *sha3.State, p []byte) (int, error) { return len(p), nil }

//zz: prop=C04 also=C14 tier=quick backend=bv use=stream1 timeout=120
func ZZ_C04_PolyDeriveUniform_rejection_step_mode5() {
	if !zzSymbolic() {
		zzModelOnly() // the XOF stream is a stub: no native counterpart
	}
	zzStreamPos = zzPick("candidate", 0, 1, 55)
	zzStreamCalls = 0
	zzFill("cand", &zzStreamBytes)
	var p common.Poly
	var seed [32]byte
	PolyDeriveUniform(&p, &seed, 0)
	t := (uint32(zzStreamBytes[0]) | uint32(zzStreamBytes[1])<<8 | uint32(zzStreamBytes[2])<<16) & 0x7fffff
	if t < common.Q {
		zzAssert(p[zzStreamPos] == t, "a candidate below q is used (CoeffFromThreeBytes)")
	} else {
		zzAssert(p[zzStreamPos] == 1, "a candidate >= q is rejected and the next candidate takes its place")
	}
	ok := []bool{}
	for i := 0; i < common.N; i++ {
		ok = append(ok, p[i] < common.Q)
	}
	zzAssert(zzAnd(ok...), "every sampled coefficient is below q")
}
