package internal

// C02: signature decoding is strict about the length: a valid body followed by junk, or a
// truncated body, is refused.  The body is a concrete valid encoding (z = 0, no hints) so
// that the counterexample replays natively; c~ and the appended bytes are symbolic.
//
//zz: prop=C02 tier=quick backend=bv
func ZZ_C02_sigUnpack_length_mldsa44() {
	extra := zzPick("extra", 0, 1, 2, 17)
	buf := make([]byte, SignatureSize+extra)
	ct := buf[:CTildeSize]
	zzFill("ctilde", ct)
	var z VecL
	z.PackLeGamma1(buf[CTildeSize:])
	if extra > 0 {
		zzFill("junk", buf[SignatureSize:])
	}
	var sig unpackedSignature
	ok := sig.Unpack(buf)
	zzAssert(ok == (extra == 0), "Unpack accepts a valid body iff len = SignatureSize")
	var sig2 unpackedSignature
	cut := zzPick("cut", 1, 2, SignatureSize)
	zzAssert(!sig2.Unpack(buf[:SignatureSize-cut]), "truncated signature refused")
}
