package internal

import (
	"io"

	"github.com/cloudflare/circl/internal/sha3"
	common "github.com/cloudflare/circl/sign/internal/dilithium"
)

// C04, mechanism "Fiat-Shamir-with-aborts signing loop with the four rejection conditions"
// (FIPS 204 Alg. 7 lines 11-32 / Dilithium 3.1 Fig. 4): the control skeleton of the real SignTo.
// Every arithmetic callee is replaced by a no-op (set "signloop"); the three norm checks return an
// arbitrary Boolean and MakeHint an arbitrary weight, so the solver ranges over every outcome of
// every check.  Asserted for all outcomes, up to two iterations of the loop: an iteration is left
// with `continue` only for a reason the specification gives (||r0|| >= gamma2-beta, ||z|| >=
// gamma1-beta, ||ct0|| >= gamma2, weight > omega - with exactly these bounds), the emitted
// iteration passed all four, and iteration i expands the mask with kappa = i*l.
// Outside the claim: the data flow between the (stubbed) arithmetic steps; those are the subject
// of the other C04 harnesses.

type zzLoopRec struct {
	kind  byte // 'K' VecK.Exceeds, 'L' VecL.Exceeds, 'H' MakeHint
	bound uint32
	res   bool
	pop   uint32
}

var (
	zzLoopIters  [][]zzLoopRec
	zzLoopNonces []uint16
)

//zz:replace sign/mldsa/mldsa44/internal.VecLDeriveUniformLeGamma1 set=signloop
func zzStubLoopExpandMask(v *VecL, seed *[64]byte, nonce uint16) {
	zzAssumeNote(len(zzLoopIters) < 2, "bound: at most two iterations of the rejection loop")
	zzLoopIters = append(zzLoopIters, nil)
	zzLoopNonces = append(zzLoopNonces, nonce)
}

func zzLoopAdd(r zzLoopRec) {
	n := len(zzLoopIters) - 1
	zzLoopIters[n] = append(zzLoopIters[n], r)
}

//zz:replace (*sign/mldsa/mldsa44/internal.VecK).Exceeds set=signloop
func zzStubLoopKExceeds(v *VecK, bound uint32) bool {
	r := zzFreshBool()
	zzLoopAdd(zzLoopRec{kind: 'K', bound: bound, res: r})
	return r
}

//zz:replace (*sign/mldsa/mldsa44/internal.VecL).Exceeds set=signloop
func zzStubLoopLExceeds(v *VecL, bound uint32) bool {
	r := zzFreshBool()
	zzLoopAdd(zzLoopRec{kind: 'L', bound: bound, res: r})
	return r
}

//zz:replace (*sign/mldsa/mldsa44/internal.VecK).MakeHint set=signloop
func zzStubLoopMakeHint(v *VecK, v0, v1 *VecK) uint32 {
	p := uint32(zzFreshU64())
	zzLoopAdd(zzLoopRec{kind: 'H', pop: p})
	return p
}

//zz:replace (*sign/mldsa/mldsa44/internal.VecL).NTT set=signloop
func zzStubLoopLNTT(v *VecL) {}

//zz:replace (*sign/mldsa/mldsa44/internal.VecL).Add set=signloop
func zzStubLoopLAdd(v *VecL, w, u *VecL) {}

//zz:replace (*sign/mldsa/mldsa44/internal.VecL).Normalize set=signloop
func zzStubLoopLNormalize(v *VecL) {}

//zz:replace (*sign/mldsa/mldsa44/internal.VecK).Normalize set=signloop
func zzStubLoopKNormalize(v *VecK) {}

//zz:replace (*sign/mldsa/mldsa44/internal.VecK).NormalizeAssumingLe2Q set=signloop
func zzStubLoopKNormalize2Q(v *VecK) {}

//zz:replace (*sign/mldsa/mldsa44/internal.VecK).Add set=signloop
func zzStubLoopKAdd(v *VecK, w, u *VecK) {}

//zz:replace (*sign/mldsa/mldsa44/internal.VecK).Sub set=signloop
func zzStubLoopKSub(v *VecK, a, b *VecK) {}

//zz:replace (*sign/mldsa/mldsa44/internal.VecK).Decompose set=signloop
func zzStubLoopKDecompose(v *VecK, v0PlusQ, v1 *VecK) {}

//zz:replace (*sign/mldsa/mldsa44/internal.VecK).PackW1 set=signloop
func zzStubLoopKPackW1(v *VecK, buf []byte) {}

//zz:replace sign/mldsa/mldsa44/internal.PolyDotHat set=signloop
func zzStubLoopPolyDotHat(p *common.Poly, a, b *VecL) {}

//zz:replace sign/mldsa/mldsa44/internal.PolyDeriveUniformBall set=signloop
func zzStubLoopBall(p *common.Poly, seed []byte) {}

//zz:replace (*sign/internal/dilithium.Poly).NTT set=signloop
func zzStubLoopPNTT(p *common.Poly) {}

//zz:replace (*sign/internal/dilithium.Poly).InvNTT set=signloop
func zzStubLoopPInvNTT(p *common.Poly) {}

//zz:replace (*sign/internal/dilithium.Poly).ReduceLe2Q set=signloop
func zzStubLoopPReduce(p *common.Poly) {}

//zz:replace (*sign/internal/dilithium.Poly).MulHat set=signloop
func zzStubLoopPMulHat(p *common.Poly, a, b *common.Poly) {}

//zz:replace (*internal/sha3.State).Write set=signloop
func zzStubLoopWrite(d *sha3.State, p []byte) (int, error) { return len(p), nil }

//zz:replace (*internal/sha3.State).Read set=signloop
func zzStubLoopRead(d *sha3.State, out []byte) (int, error) { return len(out), nil }

//zz: prop=C04 tier=quick backend=bv use=signloop timeout=300
func ZZ_C04_signing_loop_rejection_conditions_mldsa44() {
	if !zzSymbolic() {
		zzModelOnly()
	}
	zzLoopIters, zzLoopNonces = nil, nil
	var sk PrivateKey
	var rnd [32]byte
	sig := make([]byte, SignatureSize)
	SignTo(&sk, func(io.Writer) {}, rnd, sig)
	n := len(zzLoopIters)
	zzAssert(n >= 1, "the mask is expanded at least once")
	for i := 0; i < n; i++ {
		zzAssert(zzLoopNonces[i] == uint16(i*L), "iteration i expands the mask with kappa = i*l")
		recs := zzLoopIters[i]
		want := []zzLoopRec{{kind: 'K', bound: Gamma2 - Beta}, {kind: 'L', bound: Gamma1 - Beta}, {kind: 'K', bound: Gamma2}, {kind: 'H'}}
		zzAssert(len(recs) >= 1 && len(recs) <= 4, "an iteration performs between one and four checks")
		for j, r := range recs {
			zzAssert(r.kind == want[j].kind && r.bound == want[j].bound, "the checks are ||r0|| >= gamma2-beta, ||z|| >= gamma1-beta, ||ct0|| >= gamma2, weight > omega, with these bounds")
			last := j == len(recs)-1
			rejects := r.res
			if r.kind == 'H' {
				rejects = r.pop > Omega
			}
			if i < n-1 && last {
				zzAssert(rejects, "an iteration is abandoned only when the specification rejects the candidate")
			} else {
				zzAssert(!rejects, "a candidate the specification rejects is not carried further")
			}
		}
		if i == n-1 {
			zzAssert(len(recs) == 4, "the emitted candidate passed all four checks")
		}
	}
}
