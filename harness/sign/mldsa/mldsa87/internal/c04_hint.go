package internal

// C02/C04/C10: hint decoding equals FIPS 204 Algorithm 21 (HintBitUnpack), accepts exactly
// the canonical encodings, and never reads outside its (omega+k)-byte input.

// FIPS 204 Algorithm 21, transcribed literally.
func zzHintBitUnpackRef(y []byte) (bool, VecK) {
	var h VecK
	index := 0
	for i := 0; i < K; i++ {
		if int(y[Omega+i]) < index || int(y[Omega+i]) > Omega {
			return false, h
		}
		first := index
		for index < int(y[Omega+i]) {
			if index > first {
				if y[index-1] >= y[index] {
					return false, h
				}
			}
			h[i][y[index]] = 1
			index++
		}
	}
	for i := index; i < Omega; i++ {
		if y[i] != 0 {
			return false, h
		}
	}
	return true, h
}

// every (omega+k)-byte string encoding at most 3 hints in total
//
//zz: prop=C04 also=C02 tier=quick backend=bv maxpaths=60000
func ZZ_C04_UnpackHint_vs_FIPS204_mldsa87() { zzUnpackHintCheck(1) }

//zz: prop=C04 tier=thorough backend=bv maxpaths=200000 budget=3000
func ZZ_C04_UnpackHint_vs_FIPS204_h2_mldsa87() { zzUnpackHintCheck(2) }

func zzUnpackHintCheck(bound uint8) {
	buf := make([]byte, Omega+K)
	zzFill("y", buf)
	cs := []bool{}
	for i := 0; i < K; i++ {
		cs = append(cs, buf[Omega+i] <= bound)
	}
	zzAssumeNote(zzAnd(cs...), "bound: all switch-over points <= 1 (quick) / <= 2 (thorough), i.e. at most that many hints in total; larger hint counts outside the claim")
	for i := 0; i < K; i++ {
		buf[Omega+i] = zzConcU8(buf[Omega+i]) // case split on the switch-over points (explicit, all values within the bound)
	}
	var v VecK
	ok := v.UnpackHint(buf)
	refOK, ref := zzHintBitUnpackRef(buf)
	zzAssert(ok == refOK, "UnpackHint verdict = HintBitUnpack verdict")
	if ok {
		eq := []bool{}
		for i := 0; i < K; i++ {
			for j := 0; j < 256; j++ {
				eq = append(eq, v[i][j] == ref[i][j])
			}
		}
		zzAssert(zzAnd(eq...), "UnpackHint vector = HintBitUnpack vector")
	}
}

// a switch-over point above omega is refused without touching memory outside the input,
// whatever the other bytes are (earlier switch-over points <= 1 to bound the exploration)
//
//zz: prop=C10 tier=quick backend=bv maxpaths=60000 budget=60
func ZZ_C10_UnpackHint_SOP_range_mldsa87() {
	buf := make([]byte, Omega+K)
	zzFill("y", buf)
	i := zzLen("i", 0, K-1)
	cs := []bool{buf[Omega+i] > Omega}
	for k := 0; k < i; k++ {
		cs = append(cs, buf[Omega+k] <= 1)
	}
	zzAssumeNote(zzAnd(cs...), "switch-over point i exceeds omega; earlier ones <= 1 (bound)")
	var v VecK
	ok := v.UnpackHint(buf)
	zzAssert(!ok, "switch-over point above omega is refused")
}

// ordering of the hint indices inside one polynomial (strictly increasing, FIPS 204 Alg. 21 line 9):
// two or three hints, all in the first or all in the last polynomial, every index value (so also
// 255 followed by smaller ones) and arbitrary padding bytes
//
//zz: prop=C04 also=C02 tier=quick backend=bv maxpaths=60000
func ZZ_C04_UnpackHint_index_order_mldsa87() {
	buf := make([]byte, Omega+K)
	zzFill("y", buf)
	c := byte(zzPick("hints", 2, 3))
	first := zzPick("polynomial", 0, K-1)
	for i := 0; i < K; i++ {
		buf[Omega+i] = 0
		if i >= first {
			buf[Omega+i] = c
		}
	}
	var v VecK
	ok := v.UnpackHint(buf)
	refOK, ref := zzHintBitUnpackRef(buf)
	zzAssert(ok == refOK, "UnpackHint verdict = HintBitUnpack verdict (index order)")
	if ok {
		eq := []bool{}
		for j := 0; j < 256; j++ {
			eq = append(eq, v[first][j] == ref[first][j])
		}
		zzAssert(zzAnd(eq...), "UnpackHint vector = HintBitUnpack vector (index order)")
	}
}
