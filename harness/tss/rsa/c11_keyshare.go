package rsa

import "math/big"

// C11: decoding a key share into a previously used object gives exactly the object obtained by
// decoding into a fresh one - including the optional cached exponent, which must not survive from
// the previous contents - for every encoding of up to 16 bytes and every header; C10: the decoder
// does not panic on any of them.  (math/big runs symbolically in its pure-Go form.)

func zzKeyShareEq(a, b *KeyShare) bool {
	if a.Players != b.Players || a.Threshold != b.Threshold || a.Index != b.Index {
		return false
	}
	if (a.si == nil) != (b.si == nil) || (a.twoDeltaSi == nil) != (b.twoDeltaSi == nil) {
		return false
	}
	if a.si != nil && a.si.Cmp(b.si) != 0 {
		return false
	}
	if a.twoDeltaSi != nil && a.twoDeltaSi.Cmp(b.twoDeltaSi) != 0 {
		return false
	}
	return true
}

//zz: prop=C11 also=C10 tier=quick backend=bv maxpaths=20000 budget=300
func ZZ_C11_tssrsa_KeyShare_unmarshal_into_used() {
	n := zzPick("len", 0, 5, 7, 9, 10, 11, 12, 13, 14, 16)
	data := make([]byte, n)
	zzFill("data", data)
	if n >= 8 {
		data[6] = 0
		zzAssumeNote(data[7] <= 3, "bound: siLen <= 3 (longer si fields outside the claim)")
		data[7] = zzConcU8(data[7]) // siLen: case split (explicit, all values within the bound)
	}
	if n >= 13 {
		zzAssumeNote(zzAnd(data[10] <= 3, data[11] <= 3, data[12] <= 3), "bound: bytes that can be read as twoDeltaSiLen are <= 3")
		data[10] = zzConcU8(data[10])
		data[11] = zzConcU8(data[11])
		data[12] = zzConcU8(data[12])
	}
	used := KeyShare{si: big.NewInt(1234567), twoDeltaSi: big.NewInt(7654321), Index: 9, Players: 11, Threshold: 5}
	var fresh KeyShare
	err1 := used.UnmarshalBinary(data)
	err2 := fresh.UnmarshalBinary(data)
	zzAssert((err1 == nil) == (err2 == nil), "same verdict for a used and a fresh receiver")
	if err1 == nil && err2 == nil {
		zzAssert(zzKeyShareEq(&used, &fresh), "decode into a used key share = decode into a fresh one")
	}
}

// C11 (schedules): a key share used by two goroutines whose first signing operations overlap: both
// obtain the cached exponent 2*delta*s_i computed by a call running alone, a concurrent
// MarshalBinary encodes a consistent share, and the calls do not race.  s_i symbolic (8 bytes).

func zzShare() (*KeyShare, *big.Int) {
	b := make([]byte, 8)
	zzFill("si", b)
	zzAssumeNote(b[0] != 0, "s_i has no leading zero byte (8 significant bytes)")
	si := new(big.Int).SetBytes(b)
	ref := KeyShare{si: new(big.Int).Set(si), Index: 1, Players: 3, Threshold: 2}
	return &KeyShare{si: si, Index: 1, Players: 3, Threshold: 2}, new(big.Int).Set(ref.get2DeltaSi(3))
}

//zz: prop=C11 tier=quick backend=bv timeout=120 maxpaths=4000
func ZZ_C11_tssrsa_get2DeltaSi_two_threads() {
	k, want := zzShare()
	var ra, rb *big.Int
	at := zzPick("suspendAfterStore", 1, 2, 3, 4, 5, 6, 8, 10, 12, 14, 16, 20, 24, 28, 32, 40, 48, 56, 64, 1000)
	pre := zzInterleave(
		func() { ra = new(big.Int).Set(k.get2DeltaSi(3)) },
		func() { rb = new(big.Int).Set(k.get2DeltaSi(3)) },
		at)
	if pre {
		zzReach("a schedule in which thread B runs while thread A is suspended")
	}
	zzAssert(ra.Cmp(want) == 0, "thread A obtains the exponent computed alone")
	zzAssert(rb.Cmp(want) == 0, "thread B obtains the exponent computed alone")
}

//zz: prop=C11 tier=quick backend=bv timeout=120 maxpaths=4000
func ZZ_C11_tssrsa_sign_and_marshal_two_threads() {
	k, want := zzShare()
	var enc []byte
	at := zzPick("suspendAfterStore", 1, 2, 3, 4, 5, 6, 8, 10, 12, 14, 16, 20, 24, 28, 32, 40, 48, 56, 64, 1000)
	pre := zzInterleave(
		func() { _ = k.get2DeltaSi(3) },
		func() { enc, _ = k.MarshalBinary() },
		at)
	if pre {
		zzReach("a schedule in which thread B runs while thread A is suspended")
	}
	var back KeyShare
	zzAssert(back.UnmarshalBinary(enc) == nil, "the concurrently produced encoding decodes")
	zzAssert(back.si.Cmp(k.si) == 0, "and carries the share")
	if back.twoDeltaSi != nil {
		zzAssert(back.twoDeltaSi.Cmp(want) == 0, "and, if it carries the cached exponent, the right one")
	}
}

// C10: share decoding with length fields close to 2^16 (the offsets are computed in uint16 in the
// decoder): no input panics.  65543-byte inputs, the 8 header bytes symbolic (length field case split
// over the values around the wrap), the rest zero.
//
//zz: prop=C10 tier=quick backend=bv timeout=600 maxpaths=2000 budget=900
func ZZ_C10_tssrsa_share_decoding_with_long_length_fields() {
	n := zzPick("len", 65543, 65535, 9)
	data := make([]byte, n)
	hdr := make([]byte, 6)
	zzFill("header", hdr)
	copy(data, hdr)
	l := zzPick("lengthField", 0xFFFF, 0xFFF8, 0xFFF7, 1)
	data[6], data[7] = byte(l>>8), byte(l)
	if zzPick("type", 0, 1) == 0 {
		var s SignShare
		_ = s.UnmarshalBinary(data)
	} else {
		var k KeyShare
		_ = k.UnmarshalBinary(data)
	}
}
