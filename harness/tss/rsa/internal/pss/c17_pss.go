package pss

import (
	"crypto"
	"crypto/rsa"
	"hash"
	"math/big"
)

// C17 (threshold RSA, PSS padding): for every modulus length (also those that are not a multiple
// of 8), every digest and every salt, the padded message is an integer below 2^(modBits-1) - hence
// below the modulus, so that the partial signatures can be computed and crypto/rsa verifies the
// combination - and has exactly emLen = ceil((modBits-1)/8) bytes ending in 0xbc.  The hash is an
// uninterpreted function of its input.

type zzHash struct{ data []byte }

func (h *zzHash) Write(p []byte) (int, error) { h.data = append(h.data, p...); return len(p), nil }
func (h *zzHash) Sum(b []byte) []byte         { return append(b, zzUF("Hash", 32, h.data)...) }
func (h *zzHash) Reset()                      { h.data = nil }
func (h *zzHash) Size() int                   { return 32 }
func (h *zzHash) BlockSize() int              { return 64 }

//zz: prop=C17 also=C18 tier=quick backend=bv timeout=300
func ZZ_C17_tssrsa_PSS_padding_below_modulus() {
	if !zzSymbolic() {
		zzModelOnly() // the hash is uninterpreted here
	}
	crypto.RegisterHash(crypto.SHA256, func() hash.Hash { return &zzHash{} }) // the executor does not run crypto/sha256's init
	modBits := zzPick("modBits", 535, 536, 537, 541, 544)
	n := new(big.Int).Lsh(big.NewInt(1), uint(modBits-1))
	n.Add(n, big.NewInt(12345)) // some modulus of exactly modBits bits
	pub := &rsa.PublicKey{N: n, E: 65537}
	hashed := make([]byte, 32)
	salt := make([]byte, zzPick("saltlen", 0, 32))
	zzFill("digest", hashed)
	zzFill("salt", salt)
	em, err := padPSSWithSalt(pub, crypto.SHA256, hashed, salt)
	zzAssert(err == nil, "padding succeeds")
	emBits := modBits - 1
	emLen := (emBits + 7) / 8
	zzAssert(len(em) == emLen, "EM has ceil((modBits-1)/8) bytes")
	zzAssert(em[emLen-1] == 0xbc, "EM ends in 0xbc")
	zzAssert(em[0]>>uint(8-(8*emLen-emBits)) == 0 || 8*emLen == emBits, "the leftmost 8*emLen - emBits bits of EM are zero (EM < 2^(modBits-1) <= N)")
}
