package rsa

// C17 (threshold RSA): the integer Lagrange coefficient lambda(S, 0, j) = Delta * prod(0 - j') /
// prod(j - j') that CombineSignShares raises the partial signatures to is exact - lambda *
// prod(j - j') == Delta * prod(0 - j') - for every set S of k distinct player indices out of 1..l
// and every j in S (l = 5, k = 2, 3 quick; l = 7, k <= 4 thorough).  A truncated coefficient makes
// combination fail for exactly the subsets whose denominator does not divide the numerator.

func zzLambdaCheck(l int64, k int) {
	S := make([]SignShare, k)
	cs := []bool{}
	idxs := make([]uint8, k)
	zzFill("index", idxs)
	for m := range S {
		idx := idxs[m]
		S[m].Index = uint(idx)
		cs = append(cs, idx >= 1, int64(idx) <= l)
		for q := 0; q < m; q++ {
			cs = append(cs, S[q].Index != S[m].Index)
		}
	}
	zzAssumeNote(zzAnd(cs...), "player indices are distinct and in 1..l")
	delta := calculateDelta(l)
	m := zzPick("j", 0, 1, 2, 3)
	if m >= k {
		return
	}
	j := int64(S[m].Index)
	lam, err := computeLambda(delta, S, 0, j)
	zzAssert(err == nil, "computeLambda accepts j in S, 0 not in S")
	if err != nil {
		return
	}
	num, den := int64(1), int64(1)
	for q := range S {
		if q == m {
			continue
		}
		jp := int64(S[q].Index)
		num *= 0 - jp
		den *= j - jp
	}
	zzAssert(lam.IsInt64(), "lambda fits a machine word for these sizes")
	zzAssert(lam.Int64()*den == delta.Int64()*num, "lambda * prod(j - j') == Delta * prod(0 - j')  (the division is exact)")
}

//zz: prop=C17 tier=quick backend=bv timeout=300 maxpaths=20000 budget=600
func ZZ_C17_tssrsa_computeLambda_exact_l5_k2() { zzLambdaCheck(5, 2) }

//zz: prop=C17 tier=quick backend=bv timeout=300 maxpaths=20000 budget=600
func ZZ_C17_tssrsa_computeLambda_exact_l5_k3() { zzLambdaCheck(5, 3) }

//zz: prop=C17 tier=thorough backend=bv timeout=900 maxpaths=100000 budget=3000
func ZZ_C17_tssrsa_computeLambda_exact_l7_k4() { zzLambdaCheck(7, 4) }
