package rsa

import (
	"crypto/rsa"
	"math/big"
)

// C17 ("blinded and unblinded, cached and uncached share exponents"; C11: a call changes nothing
// but what it returns): signing - blinded or not - leaves the key share as it was: the share s_i and
// the cached exponent 2*Delta*s_i still have the values a fresh share computes, so every later
// partial signature of the same share is computed from the right exponent.  s_i is symbolic (8
// bytes), the blinding value comes from a symbolic random source; modular exponentiation is a
// recorder (set "exprec").

type zzRandReader struct{ b []byte }

func (r *zzRandReader) Read(p []byte) (int, error) {
	for i := range p {
		p[i] = r.b[i%len(r.b)]
	}
	return len(p), nil
}

//zz: prop=C17 also=C11 tier=quick backend=bv use=exprec timeout=300 maxpaths=4000
func ZZ_C17_tssrsa_signing_leaves_the_share_exponent_unchanged() {
	if !zzSymbolic() {
		zzModelOnly()
	}
	k, want := zzShare()
	si0 := new(big.Int).Set(k.si)
	pub := &rsa.PublicKey{N: big.NewInt(253), E: 7}
	rb := make([]byte, 1)
	zzFill("rand", rb)
	zzAssumeNote(rb[0] < 253 && rb[0] > 0, "the random source yields a value below the modulus at the first draw (rand.Int would otherwise redraw)")
	blinded := zzPick("blinded", 0, 1) == 1
	var err error
	if blinded {
		_, err = k.Sign(&zzRandReader{rb}, pub, []byte{4}, false)
	} else {
		_, err = k.Sign(nil, pub, []byte{4}, false)
	}
	if err != nil {
		return
	}
	zzReach("signed")
	zzAssert(k.si.Cmp(si0) == 0, "the share s_i is unchanged")
	zzAssert(k.twoDeltaSi == nil || k.twoDeltaSi.Cmp(want) == 0, "the cached exponent is still 2*Delta*s_i")
	zzAssert(k.get2DeltaSi(3).Cmp(want) == 0, "the next signature uses 2*Delta*s_i")
}
