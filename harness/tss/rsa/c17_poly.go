package rsa

import "math/big"

// C17 (threshold RSA, share generation): computePolynomial returns f(x) = sum a_i x^i exactly, for
// every player index of a 30-player sharing with threshold k = 14 (x^13 reaches 30^13 > 2^63, far
// beyond the 2^53 up to which a float64 power is exact) and arbitrary 64-bit values of the two highest coefficients (the others are fixed).  The
// modulus is 2^200 (larger than any possible sum), so the reductions are identities and the value
// is compared with the integer polynomial (LIA back end, one path per player index).

func zzWBig(x *big.Int) zzW {
	ws := x.Bits()
	ls := make([]uint64, len(ws))
	for i, w := range ws {
		ls[i] = uint64(w)
	}
	return zzWLE64(ls)
}

//zz: prop=C17 tier=quick backend=lia timeout=300 maxpaths=200 budget=900
func ZZ_C17_tssrsa_computePolynomial_is_exact() {
	k := uint(zzT(14, 22))
	cs := make([]uint64, k)
	for i := range cs {
		cs[i] = 0x9e3779b97f4a7c15 * uint64(i+1)
	}
	top := make([]uint64, 2)
	zzFill("a", top)
	cs[k-1], cs[k-2] = top[0], top[1] // the two highest coefficients are arbitrary
	a := make([]*big.Int, k)
	for i := range a {
		a[i] = new(big.Int).SetUint64(cs[i])
	}
	xs := []int{1, 2, 7, 23, 29, 30}
	if zzThorough() {
		xs = append(xs, 3, 5, 11, 13, 17, 19, 25, 27, 28)
	}
	x := uint(zzPick("x", xs...))
	m := new(big.Int).Lsh(big.NewInt(1), 200)
	got := computePolynomial(k, a, x, m)
	want := zzWConst("0")
	pw := big.NewInt(1)
	for i := 0; i < int(k); i++ {
		want = zzWAdd(want, zzWMulC(zzWU(cs[i]), pw.String()))
		pw.Mul(pw, big.NewInt(int64(x)))
	}
	zzAssert(got.Sign() >= 0 && zzWEq(zzWBig(got), want), "computePolynomial(x) = sum a_i x^i")
}
