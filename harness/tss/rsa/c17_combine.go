package rsa

import (
	"crypto/rsa"
	"math/big"
)

// C17 (threshold RSA, "any k or more distinct players"): Shoup's combination is
// w = prod_{j in T} x_j^(2*lambda(T,0,j)) for ONE set T of at least k players - the players whose
// partial signatures are multiplied in and the set the Lagrange coefficients are computed over
// must be the same set.  CombineSignShares runs on three shares of a (l = 5, k = 2) sharing with
// arbitrary distinct player indices; modular exponentiation is replaced by a recorder (set
// "exprec").  Asserted for every choice of indices: the set T of shares that were raised to a
// power has at least k members, and each was raised to |2*lambda(T, 0, j)| with lambda recomputed
// by the real computeLambda (whose exactness is the subject of c17_lambda.go).  That the product
// then equals x^(4*Delta^2*d) is Shoup's theorem (assumption); the sign handling (ModInverse) and
// the final gcd step are outside this harness.

type zzExpRec struct {
	base *big.Int
	exp  *big.Int
}

var zzExpRecs []zzExpRec

//zz:replace (*math/big.Int).Exp set=exprec
func zzStubExp(z *big.Int, x, y, m *big.Int) *big.Int {
	zzExpRecs = append(zzExpRecs, zzExpRec{x, new(big.Int).Set(y)})
	return z.SetInt64(1)
}

//zz: prop=C17 tier=quick backend=bv use=exprec timeout=300 maxpaths=20000 budget=600
func ZZ_C17_tssrsa_combine_uses_one_share_set() {
	if !zzSymbolic() {
		zzModelOnly()
	}
	const l, k, n = 5, 2, 3
	S := make([]SignShare, n)
	idxs := make([]uint8, n)
	zzFill("index", idxs)
	cs := []bool{}
	for m := range S {
		S[m] = SignShare{xi: big.NewInt(int64(2 + m)), Index: uint(idxs[m]), Players: l, Threshold: k}
		cs = append(cs, idxs[m] >= 1, idxs[m] <= l)
		for q := 0; q < m; q++ {
			cs = append(cs, idxs[q] != idxs[m])
		}
	}
	zzAssumeNote(zzAnd(cs...), "player indices are distinct and in 1..l")
	pub := &rsa.PublicKey{N: big.NewInt(253), E: 7}
	zzExpRecs = nil
	_, _ = CombineSignShares(pub, S, []byte{2})
	var T []SignShare
	var exps []*big.Int
	for _, r := range zzExpRecs {
		for m := range S {
			if r.base == S[m].xi {
				T = append(T, S[m])
				exps = append(exps, r.exp)
			}
		}
	}
	zzAssert(len(T) >= k, "at least k partial signatures are multiplied in")
	delta := calculateDelta(l)
	for m := range T {
		lam, err := computeLambda(delta, T, 0, int64(T[m].Index))
		zzAssert(err == nil, "lambda over the set of shares used")
		if err != nil {
			return
		}
		lam.Add(lam, lam)
		lam.Abs(lam)
		zzAssert(lam.Cmp(exps[m]) == 0, "each partial signature used is raised to |2*lambda(T,0,j)| for the set T of shares used")
	}
}
