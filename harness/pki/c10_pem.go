package pki

// C10: PEM key parsing returns an error - it does not dereference a nil block - for inputs in which
// no PEM block is found, in particular the empty input (lengths 0..3, bytes symbolic).

//zz: prop=C10 tier=quick backend=bv timeout=300 maxpaths=20000
func ZZ_C10_pki_PEM_parsing_of_short_input() {
	data := make([]byte, zzPick("len", 0, 1, 3))
	zzFill("data", data)
	if zzPick("kind", 0, 1) == 0 {
		_, err := UnmarshalPEMPublicKey(data)
		zzAssert(err != nil, "no key can be parsed from at most 3 bytes")
	} else {
		_, err := UnmarshalPEMPrivateKey(data)
		zzAssert(err != nil, "no key can be parsed from at most 3 bytes")
	}
}
