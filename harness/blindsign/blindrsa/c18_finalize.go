package blindrsa

import (
	"crypto/rsa"
	"math/big"

	"github.com/cloudflare/circl/blindsign/blindrsa/internal/keys"
)

// C18: "finalisation fails for any altered blind signature": a blind signature that is not below the
// modulus (z + N of the right length) is refused, whatever the final self-verification says (it is
// replaced by an accepting stub, set "vbsfree").  Symbolic blind-signature bytes, toy moduli.

//zz:replace blindsign/blindrsa/internal/common.VerifyBlindSignature set=vbsfree
func zzStubVerifyBlindSignature(pub *keys.BigPublicKey, hashed, sig []byte) error { return nil }

//zz: prop=C18 tier=quick backend=bv use=vbsfree timeout=120
func ZZ_C18_Finalize_refuses_blind_signature_not_below_modulus() {
	if !zzSymbolic() {
		zzModelOnly() // the self-verification is an accepting stub here
	}
	n := int64(zzPick("modulus", 3233, 131041))
	pk := &rsa.PublicKey{N: big.NewInt(n), E: 17}
	c := Client{v: Verifier{pk: pk}}
	st := State{encodedMsg: []byte{1}, rInv: big.NewInt(1)}
	bs := make([]byte, (pk.N.BitLen()+7)/8)
	zzFill("blindSig", bs)
	_, err := c.Finalize(st, bs)
	if err == nil {
		zzAssert(new(big.Int).SetBytes(bs).Cmp(pk.N) < 0, "an accepted blind signature is below the modulus")
	}
}
