package common

import (
	"crypto"
	"crypto/rsa"
	"hash"
	"math/big"

	"github.com/cloudflare/circl/blindsign/blindrsa/internal/keys"
)

// C18: "the library's PSS verifier accepts exactly the pairs crypto/rsa.VerifyPSS accepts": a
// signature that is not below the modulus (N, N+1, s+N ...) is refused whatever it would decrypt
// to.  The modular exponentiation and the EMSA-PSS check are replaced by their most permissive
// behaviour (set "rsafree": exponentiation returns 0, the encoding check accepts), so the harness
// decides exactly the range check; the signature bytes are symbolic (2-byte toy modulus 3233 and a
// 3-byte modulus with a small top byte, 0x01ffe1 = 131041 = 361*363 is not used arithmetically).

//zz:replace blindsign/blindrsa/internal/common.encrypt set=rsafree
func zzStubEncrypt(c *big.Int, N *big.Int, e *big.Int, m *big.Int) *big.Int { return c.SetInt64(0) }

//zz:replace blindsign/blindrsa/internal/common.emsaPSSVerify set=rsafree
func zzStubEmsaPSSVerify(mHash, em []byte, emBits, sLen int, hash interface{}) error { return nil }

//zz: prop=C18 tier=quick backend=bv use=rsafree timeout=120
func ZZ_C18_verifyPSS_refuses_signature_not_below_modulus() {
	if !zzSymbolic() {
		zzModelOnly() // exponentiation and encoding check are permissive stubs here
	}
	crypto.RegisterHash(crypto.SHA256, func() hash.Hash { return &zzHash{} }) // the executor does not run crypto/sha256's init
	n := int64(zzPick("modulus", 3233, 131041))
	pub := &keys.BigPublicKey{N: big.NewInt(n), E: big.NewInt(17)}
	sig := make([]byte, pub.Size())
	zzFill("sig", sig)
	err := verifyPSS(pub, crypto.SHA256, make([]byte, 32), sig, &rsa.PSSOptions{SaltLength: 32})
	if err == nil {
		zzAssert(new(big.Int).SetBytes(sig).Cmp(pub.N) < 0, "an accepted signature is below the modulus (as crypto/rsa requires)")
	}
}
