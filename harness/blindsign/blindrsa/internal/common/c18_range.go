package common

import (
	"crypto"
	"crypto/rsa"
	"hash"
	"math/big"

	"github.com/cloudflare/circl/blindsign/blindrsa/internal/keys"
)

// C18: "the library's PSS verifier accepts exactly the pairs crypto/rsa.VerifyPSS accepts": a
// signature that is not below the modulus (N, N+1, s+N ...) is refused whatever it would decrypt
// to.  The modular exponentiation and the EMSA-PSS check are replaced by their most permissive
// behaviour (set "rsafree": exponentiation returns 0, the encoding check accepts), so the harness
// decides exactly the range check; the signature bytes are symbolic (2-byte toy modulus 3233 and a
// 3-byte modulus with a small top byte, 0x01ffe1 = 131041 = 361*363 is not used arithmetically).

//zz:replace blindsign/blindrsa/internal/common.encrypt set=rsafree
func zzStubEncrypt(c *big.Int, N *big.Int, e *big.Int, m *big.Int) *big.Int { return c.SetInt64(0) }

//zz:replace blindsign/blindrsa/internal/common.emsaPSSVerify set=rsafree
func zzStubEmsaPSSVerify(mHash, em []byte, emBits, sLen int, hash interface{}) error { return nil }

//zz: prop=C18 tier=quick backend=bv use=rsafree timeout=120
func ZZ_C18_verifyPSS_refuses_signature_not_below_modulus() {
	if !zzSymbolic() {
		zzModelOnly() // exponentiation and encoding check are permissive stubs here
	}
	crypto.RegisterHash(crypto.SHA256, func() hash.Hash { return &zzHash{} }) // the executor does not run crypto/sha256's init
	n := int64(zzPick("modulus", 3233, 131041))
	pub := &keys.BigPublicKey{N: big.NewInt(n), E: big.NewInt(17)}
	sig := make([]byte, pub.Size())
	zzFill("sig", sig)
	err := verifyPSS(pub, crypto.SHA256, make([]byte, 32), sig, &rsa.PSSOptions{SaltLength: 32})
	if err == nil {
		zzAssert(new(big.Int).SetBytes(sig).Cmp(pub.N) < 0, "an accepted signature is below the modulus (as crypto/rsa requires)")
	}
}

// C18: for moduli whose bit length is 1 mod 8 the encoded message has one octet less than the
// modulus: the verifier must refuse a signature whose s^e mod N does not fit emLen octets (a
// non-zero leading octet), as crypto/rsa does - whatever the encoding check would say about the
// rest.  The exponentiation returns an arbitrary value below N (set "rsasym"), the encoding check
// accepts; 17-bit toy modulus, all bytes of s^e mod N symbolic.

var zzEncryptResult *big.Int

//zz:replace blindsign/blindrsa/internal/common.encrypt set=rsasym
func zzStubEncryptSym(c *big.Int, N *big.Int, e *big.Int, m *big.Int) *big.Int { return c.Set(zzEncryptResult) }

//zz:replace blindsign/blindrsa/internal/common.emsaPSSVerify set=rsasym
func zzStubEmsaPSSVerifySym(mHash, em []byte, emBits, sLen int, hash interface{}) error { return nil }

//zz: prop=C18 tier=quick backend=bv use=rsasym timeout=120 maxpaths=2000
func ZZ_C18_verifyPSS_refuses_encoded_message_longer_than_emLen() {
	if !zzSymbolic() {
		zzModelOnly()
	}
	crypto.RegisterHash(crypto.SHA256, func() hash.Hash { return &zzHash{} })
	n := big.NewInt(1<<16 + 1027) // 17 bits: emBits = 16, emLen = 2, modulus size 3
	pub := &keys.BigPublicKey{N: n, E: big.NewInt(17)}
	mb := make([]byte, 3)
	zzFill("m", mb)
	zzEncryptResult = new(big.Int).SetBytes(mb)
	zzAssumeNote(zzEncryptResult.Cmp(n) < 0, "s^e mod N is below N")
	sig := []byte{0, 0, 5}
	err := verifyPSS(pub, crypto.SHA256, make([]byte, 32), sig, &rsa.PSSOptions{SaltLength: 32})
	if err == nil {
		zzAssert(mb[0] == 0, "an accepted signature decrypts to an integer of at most emLen octets (leading octet zero)")
	}
}
