package common

// C18: EMSA-PSS encoding and verification of the real blind-RSA code against RFC 8017 §9.1.1 /
// §9.1.2 (the algorithm crypto/rsa.VerifyPSS implements), for EVERY encoded message EM and every
// (mHash, salt); the hash function is an uninterpreted function of its input bytes (transcript model).

type zzHash struct{ data []byte }

func (h *zzHash) Write(p []byte) (int, error) { h.data = append(h.data, p...); return len(p), nil }
func (h *zzHash) Sum(b []byte) []byte         { return append(b, zzUF("Hash", 32, h.data)...) }
func (h *zzHash) Reset()                      { h.data = nil }
func (h *zzHash) Size() int                   { return 32 }
func (h *zzHash) BlockSize() int              { return 64 }

func zzH(parts ...[]byte) []byte {
	var d []byte
	for _, p := range parts {
		d = append(d, p...)
	}
	return zzUF("Hash", 32, d)
}

// RFC 8017 B.2.1 MGF1
func zzMGF1(seed []byte, n int) []byte {
	var t []byte
	for c := 0; len(t) < n; c++ {
		ctr := []byte{byte(c >> 24), byte(c >> 16), byte(c >> 8), byte(c)}
		t = append(t, zzH(seed, ctr)...)
	}
	return t[:n]
}

// RFC 8017 §9.1.2 EMSA-PSS-VERIFY, returns "consistent"
func zzPSSVerifyRef(mHash, em []byte, emBits, sLen int) bool {
	const hLen = 32
	emLen := (emBits + 7) / 8
	if emLen < hLen+sLen+2 {
		return false
	}
	ok := []bool{em[emLen-1] == 0xbc}
	maskedDB := em[:emLen-hLen-1]
	h := em[emLen-hLen-1 : emLen-1]
	zeroBits := uint(8*emLen - emBits)
	ok = append(ok, maskedDB[0]>>(8-zeroBits) == 0 || zeroBits == 0)
	dbMask := zzMGF1(h, emLen-hLen-1)
	db := make([]byte, len(maskedDB))
	for i := range db {
		db[i] = maskedDB[i] ^ dbMask[i]
	}
	db[0] &= 0xff >> zeroBits
	psLen := emLen - hLen - sLen - 2
	for i := 0; i < psLen; i++ {
		ok = append(ok, db[i] == 0)
	}
	ok = append(ok, db[psLen] == 0x01)
	salt := db[len(db)-sLen:]
	h2 := zzH(make([]byte, 8), mHash, salt)
	ok = append(ok, zzBytesEq(h, h2))
	return zzAnd(ok...)
}

func zzVerifyCheck(emBits, sLen int) {
	emLen := (emBits + 7) / 8
	em := make([]byte, emLen)
	zzFill("em", em)
	mHash := make([]byte, 32)
	zzFill("mHash", mHash)
	want := zzPSSVerifyRef(mHash, append([]byte{}, em...), emBits, sLen)
	err := emsaPSSVerify(mHash, em, emBits, sLen, &zzHash{})
	zzAssert(zzIff(err == nil, want), "emsaPSSVerify accepts exactly the EMs RFC 8017 EMSA-PSS-VERIFY calls consistent")
}

//zz: prop=C18 tier=quick backend=bv timeout=300
func ZZ_C18_emsaPSSVerify_salted() {
	bits := []int{535, 536, 537, 543, 544, 775, 776}
	if zzThorough() {
		bits = append(bits, 538, 539, 540, 541, 542, 545, 777, 783, 784, 1023, 1024, 1025)
	}
	zzVerifyCheck(zzPick("emBits", bits...), 32) // 775/776: emLen = 97, data block of exactly 2 hash lengths
}

// salt length given as rsa.PSSSaltLengthEqualsHash (-1)
//
//zz: prop=C18 tier=quick backend=bv timeout=300
func ZZ_C18_emsaPSSVerify_salt_equals_hash() {
	emBits := zzPick("emBits", 535, 537)
	emLen := (emBits + 7) / 8
	em := make([]byte, emLen)
	zzFill("em", em)
	mHash := make([]byte, 32)
	zzFill("mHash", mHash)
	want := zzPSSVerifyRef(mHash, append([]byte{}, em...), emBits, 32)
	err := emsaPSSVerify(mHash, em, emBits, -1, &zzHash{})
	zzAssert(zzIff(err == nil, want), "PSSSaltLengthEqualsHash behaves as sLen = hLen")
}

// RFC 8017 §9.1.1 EMSA-PSS-ENCODE
//
//zz: prop=C18 tier=quick backend=bv timeout=300
func ZZ_C18_emsaPSSEncode() {
	emBits := zzPick("emBits", 535, 536, 537, 544, 776)
	sLen := zzPick("sLen", 1, 32)
	emLen := (emBits + 7) / 8
	mHash, salt := make([]byte, 32), make([]byte, sLen)
	zzFill("mHash", mHash)
	zzFill("salt", salt)
	em, err := emsaPSSEncode(mHash, emBits, salt, &zzHash{})
	zzAssert(err == nil && len(em) == emLen, "encode succeeds with emLen bytes")
	// reference
	h := zzH(make([]byte, 8), mHash, salt)
	psLen := emLen - sLen - 32 - 2
	db := make([]byte, psLen+1+sLen)
	db[psLen] = 0x01
	copy(db[psLen+1:], salt)
	mask := zzMGF1(h, len(db))
	for i := range db {
		db[i] ^= mask[i]
	}
	db[0] &= 0xff >> uint(8*emLen-emBits)
	ref := append(append(append([]byte{}, db...), h...), 0xbc)
	zzAssert(zzBytesEq(em, ref), "EM = maskedDB || H || 0xbc as in RFC 8017 §9.1.1")
	// and the verifier accepts what the encoder produced
	zzAssert(emsaPSSVerify(mHash, em, emBits, sLen, &zzHash{}) == nil, "encoded message verifies")
}

// salt length given as rsa.PSSSaltLengthAuto (0) - what the zero-salt variants (SaltLength 0) pass:
// crypto/rsa then accepts an EM iff it is consistent for SOME salt length 0..emLen-hLen-2 (the
// position of the 0x01 delimiter decides which), including the maximal salt with an empty padding
// string.  Reference = disjunction of §9.1.2 over every salt length.
//
//zz: prop=C18 tier=quick backend=bv timeout=600
func ZZ_C18_emsaPSSVerify_salt_auto() {
	bits := []int{535}
	if zzThorough() {
		bits = append(bits, 536, 537)
	}
	emBits := zzPick("emBits", bits...)
	emLen := (emBits + 7) / 8
	em := make([]byte, emLen)
	zzFill("em", em)
	mHash := make([]byte, 32)
	zzFill("mHash", mHash)
	var any []bool
	for s := 0; s <= emLen-32-2; s++ {
		any = append(any, zzPSSVerifyRef(mHash, append([]byte{}, em...), emBits, s))
	}
	err := emsaPSSVerify(mHash, em, emBits, 0, &zzHash{})
	zzAssert(zzIff(err == nil, zzOr(any...)), "PSSSaltLengthAuto accepts exactly the EMs that are consistent for some salt length (0 .. emLen-hLen-2)")
}
