package partiallyblindrsa

import (
	"crypto"
	"hash"
	"io"
	"math/big"

	"github.com/cloudflare/circl/blindsign/blindrsa/internal/keys"
)

// C11 ("no call changes the value of an operand") / C18: deriving the per-metadata public key does
// not write to the caller's metadata buffer - in particular not to the bytes that follow the
// metadata in the same backing array (callers slice message and metadata out of one buffer).
// HKDF is replaced by a reader of zero bytes (set "hkdfzero"); the buffer contents are symbolic.

type zzZeroReader struct{}

func (zzZeroReader) Read(p []byte) (int, error) {
	for i := range p {
		p[i] = 0
	}
	return len(p), nil
}

//zz:replace golang.org/x/crypto/hkdf.New set=hkdfzero
func zzStubHKDFNew(h func() hash.Hash, secret, salt, info []byte) io.Reader { return zzZeroReader{} }

//zz: prop=C11 also=C18 tier=quick backend=bv use=hkdfzero timeout=120
func ZZ_C11_pbrsa_derivePublicKey_leaves_metadata_buffer_unchanged() {
	buf := make([]byte, 12)
	zzFill("buffer", buf)
	before := append([]byte{}, buf...)
	n := zzPick("metadataLen", 0, 4, 11, 12)
	pk := &keys.BigPublicKey{N: new(big.Int).Lsh(big.NewInt(0xC5), 1016), E: big.NewInt(65537)}
	_ = derivePublicKey(crypto.SHA384, pk, buf[:n])
	zzAssert(zzBytesEq(buf, before), "the caller's buffer (metadata and the bytes after it) is unchanged")
}
