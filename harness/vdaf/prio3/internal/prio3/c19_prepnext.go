package prio3

import "github.com/cloudflare/circl/vdaf/prio3/arith/fp64"

// C19: the last preparation step (draft-irtf-cfrg-vdaf-13 7.2.3 prep_next): when the aggregator's
// state carries a corrected joint-randomness seed, the output share is released only if the
// preparation message carries exactly that seed; a message whose seed differs in any bit, or whose
// seed has been removed, is refused.  Symbolic seeds; the method does not use the FLP, so a dummy
// circuit type instantiates the generic code.

type zzFlp struct{}

var zzDecideResult bool // verdict of the dummy circuit

func (zzFlp) MeasurementLength() uint                     { return 1 }
func (zzFlp) JointRandLength() uint                       { return 1 }
func (zzFlp) OutputLength() uint                          { return 1 }
func (zzFlp) EvalOutputLength() uint                      { return 1 }
func (zzFlp) ProveRandLength() uint                       { return 1 }
func (zzFlp) ProofLength() uint                           { return 1 }
func (zzFlp) VerifierLength() uint                        { return 1 }
func (zzFlp) QueryRandLength() uint                       { return 1 }
func (zzFlp) Prove(meas, proveRand, jointRand fp64.Vec) fp64.Vec { return nil }
func (zzFlp) Query(m, p, q, j fp64.Vec, shares uint8) (fp64.Vec, error) {
	return nil, nil
}
func (zzFlp) Decide(fp64.Vec) bool                  { return zzDecideResult }
func (zzFlp) Encode(bool) (fp64.Vec, error)         { return nil, nil }
func (zzFlp) Truncate(v fp64.Vec) fp64.Vec          { return v }
func (zzFlp) Decode(fp64.Vec, uint) (*uint64, error) { return nil, nil }

//zz: prop=C19 tier=quick backend=bv timeout=120
func ZZ_C19_prio3_PrepNext_requires_matching_joint_rand_seed() {
	var v Prio3[bool, uint64, zzFlp, fp64.Vec, fp64.Fp, *fp64.Fp]
	st := &PrepState[fp64.Vec, fp64.Fp]{correctedJointRandSeed: &Seed{}, outShare: make(fp64.Vec, 1)}
	zzFill("stateSeed", st.correctedJointRandSeed)
	msg := &PrepMessage{}
	same := true
	switch zzPick("message", 0, 1, 2) {
	case 0: // seed present
		msg.joinRand = &Seed{}
		zzFill("msgSeed", msg.joinRand)
		same = *msg.joinRand == *st.correctedJointRandSeed
	case 1: // seed removed
		same = false
	case 2: // no message at all
		msg = nil
		same = false
	}
	out, err := v.PrepNext(st, msg)
	zzAssert(zzIff(err == nil, same), "the output share is released iff the message carries the corrected joint-randomness seed")
	if err != nil {
		zzAssert(out == nil, "a refused message releases no output share")
	}
}

// C19: an aggregator index outside 0..shares-1 is reported as ErrAggID before anything else is done
// with the report, for every number of shares and every index
//
//zz: prop=C19 tier=quick backend=bv timeout=120
func ZZ_C19_prio3_PrepInit_refuses_aggregator_index_out_of_range() {
	shares, aggID := zzU8("numShares"), zzU8("aggID")
	zzAssumeNote(shares >= 2, "constructor invariant: at least two aggregators")
	zzAssumeNote(aggID >= shares, "only out-of-range indices (in-range ones run the whole preparation)")
	v := Prio3[bool, uint64, zzFlp, fp64.Vec, fp64.Fp, *fp64.Fp]{shares: shares}
	var vk VerifyKey
	var nonce Nonce
	_, _, err := v.PrepInit(&vk, &nonce, aggID, nil, InputShare[fp64.Vec, fp64.Fp]{})
	zzAssert(err == ErrAggID, "aggID >= numShares is refused with ErrAggID")
}

// C19/C11: merging aggregation shares (Unshard) returns their element-wise sum modulo the field
// prime and leaves every share as it was - so unsharding again, or after aggregating more reports,
// still gives the aggregate of the batch.  2 and 3 aggregators, symbolic share elements (< p).
//
//zz: prop=C19 also=C11 tier=quick backend=lia timeout=300
func ZZ_C19_prio3_aggregateMerge_sums_and_preserves_shares() {
	const p = "0xffffffff00000001"
	n := zzPick("aggregators", 2, 3)
	v := Prio3[bool, uint64, zzFlp, fp64.Vec, fp64.Fp, *fp64.Fp]{shares: uint8(n)}
	shares := make([]AggShare[fp64.Vec, fp64.Fp], n)
	before := make([]fp64.Fp, n)
	sum := zzWConst("0")
	for i := range shares {
		shares[i].share = make(fp64.Vec, 1)
		zzFill("share", &shares[i].share[0])
		zzAssumeNote(zzWLt(zzWLE64(shares[i].share[0][:]), zzWConst(p)), "share elements are reduced field elements")
		before[i] = shares[i].share[0]
		sum = zzWAdd(sum, zzWLE64(shares[i].share[0][:]))
	}
	s := v.aggregateMerge(shares)
	zzAssert(len(s.share) == 1, "merged share has the output length")
	zzAssert(zzWCong(zzWLE64(s.share[0][:]), sum, p), "merged share = sum of the aggregation shares mod p")
	zzAssert(zzWLt(zzWLE64(s.share[0][:]), zzWConst(p)), "merged share is reduced")
	same := []bool{}
	for i := range shares {
		same = append(same, shares[i].share[0] == before[i])
	}
	zzAssert(zzAnd(same...), "the aggregation shares handed in are unchanged")
}

// C19 ("a report whose ... preparation message has been altered is rejected"): the preparation
// message is computed from the prep shares of ALL aggregators.  With fewer shares the verifier sum
// is not the verifier of the report (for none at all it is the zero vector, which the circuits
// without joint randomness accept) - so every count other than the number of aggregators is
// refused, whatever the circuit would decide (the dummy circuit's verdict is symbolic).
//
//zz: prop=C19 tier=quick backend=bv timeout=120
func ZZ_C19_prio3_PrepSharesToPrep_requires_one_share_per_aggregator() {
	shares := uint8(zzPick("numShares", 2, 3, 4))
	n := zzPick("prepShares", 0, 1, 2, 3)
	if int(shares) == n {
		return // only wrong counts (the right count runs the real combination)
	}
	zzDecideResult = zzBool("decide")
	v, err0 := New[zzFlp, bool, uint64, fp64.Vec, fp64.Fp, *fp64.Fp](zzFlp{}, 1, shares, []byte("ctx"))
	if err0 != nil {
		return
	}
	ps := make([]PrepShare[fp64.Vec, fp64.Fp], n)
	for i := range ps {
		ps[i].verifiersShare = make(fp64.Vec, 1)
		ps[i].jointRandPart = &Seed{}
	}
	msg, err := v.PrepSharesToPrep(ps)
	zzAssert(err != nil && msg == nil, "a number of prep shares other than the number of aggregators is refused")
}
