package sum

// C19: the Prio3Sum constructor for every 64-bit bound: it either reports an error or
// bits = bitlen(max) with 2^bits below the field modulus p = 2^64 - 2^32 + 1 (so the bound, hence
// every valid measurement and measurement+offset, is representable) and offset = 2^bits - 1 - max.
//
//zz: prop=C19 tier=quick backend=bv timeout=120
func ZZ_C19_sum_newFlpSum() {
	max := zzU64("maxMeasurement")
	s, err := newFlpSum(max)
	const p = uint64(0xffffffff00000001)
	if err == nil {
		zzAssert(max < p, "constructor succeeded although a valid measurement (the bound itself) is not below the field modulus")
		zzAssert(s.bits <= 63, "2^bits is below the field modulus")
		pow := uint64(1) << s.bits
		zzAssert(max < pow, "max < 2^bits")
		zzAssert(s.bits == 0 || max >= pow>>1, "bits is the bit length of max")
		var want Fp
		e2 := want.SetUint64(pow - 1 - max)
		zzAssert(e2 == nil && s.offset == want, "offset = 2^bits - 1 - max (as a field element)")
		zzAssert(s.Valid.MeasurementLen == 2*s.bits && s.Valid.EvalOutputLen == 2*s.bits+1 && s.NumGadgetCalls == 2*s.bits, "derived lengths")
	} else {
		zzAssert(max >= 1<<63, "an error is reported only for bounds whose bit length reaches 64")
	}
}
