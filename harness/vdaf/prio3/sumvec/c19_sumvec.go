package sumvec

// C19: the SumVec constructor for all (length, bits, chunk length): never panics, a zero chunk
// length is an error, derived lengths equal the draft's formulas.
//
//zz: prop=C19 tier=quick backend=bv timeout=120
func ZZ_C19_sumvec_newFlpSumVec() {
	length, chunk := zzUint("length"), zzUint("chunkLength")
	bits := uint(zzPick("bits", 0, 1, 7, 64, 65))
	zzAssumeNote(zzAnd2(length < 1<<12, chunk < 1<<12), "bound: length < 2^12, chunkLength < 2^12, bits in {0,1,7,64,65} (the ceil-division length*bits+chunk-1 is only claimed where it cannot wrap around 2^64)")
	s, err := newFlpSumVec(length, bits, chunk)
	if chunk == 0 {
		zzAssert(err != nil, "zero chunk length is an error")
	}
	if bits > 64 {
		zzAssert(err != nil, "bits > 64 is an error")
	}
	if err == nil {
		zzAssert(s.Valid.MeasurementLen == length*bits, "MeasurementLen = length*bits")
		zzAssert(s.Valid.JointRandLen == s.NumGadgetCalls && s.Valid.OutputLen == length, "derived lengths")
	}
}

// C19: every element of the encoded measurement is covered by a gadget call of the range check:
// NumGadgetCalls = ceil(MeasurementLen / chunkLen).  Bound: length < 256, bits <= 64, chunkLen < 256.
//
//zz: prop=C19 tier=quick backend=bv timeout=300
func ZZ_C19_sumvec_gadget_calls_cover_the_measurement() {
	length, bits, chunk := uint(zzU8("length")), uint(zzU8("bits")), uint(zzU8("chunkLen"))
	s, err := newFlpSumVec(length, bits, chunk)
	if err != nil {
		return
	}
	zzReach("constructed")
	calls := s.NumGadgetCalls
	zzAssert(s.Valid.MeasurementLen == length*bits, "MeasurementLen = length * bits")
	zzAssert(calls*chunk >= s.Valid.MeasurementLen && (calls == 0 || (calls-1)*chunk < s.Valid.MeasurementLen), "gadget calls = ceil(MeasurementLen / chunkLen)")
	zzAssert(s.Valid.JointRandLen == calls, "one joint-randomness element per gadget call")
}
