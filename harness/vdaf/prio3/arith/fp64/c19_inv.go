package fp64

// C19: InvUint64(x) - the factor 1/numShares of the FLP - is the field inverse of the element x for
// every 64-bit x: on the computed branch it is Inv(SetUint64(x)) for symbolic x (the Montgomery
// conversion must not be lost; both sides run the real Inv, so the verdict does not depend on the
// correctness of Inv itself, which is C12), and every entry of the small-inverse table equals the
// computed inverse and multiplies back to one.

//zz: prop=C19 tier=quick backend=bv timeout=300
func ZZ_C19_fp64_InvUint64_is_Inv_of_element() {
	x := zzU64("x")
	zzAssumeNote(x < orderP0, "x is a field element (x < p; SetUint64 and InvUint64 refuse larger values by design)")
	zzAssumeNote(x > numInverseInt, "computed branch (x above the table range); the table entries are checked one by one below")
	var got, elt, want Fp
	got.InvUint64(x)
	_ = elt.SetUint64(x)
	want.Inv(&elt)
	zzAssert(got == want, "InvUint64(x) = Inv(SetUint64(x))")
}

//zz: prop=C19 tier=quick backend=bv timeout=300
func ZZ_C19_fp64_InvUint64_table() {
	x := uint64(zzPick("x", 1, 2, 3, 4, 5, 6, 7, 8, 9, 255))
	var got, elt, want, prod Fp
	got.InvUint64(x)
	_ = elt.SetUint64(x)
	want.Inv(&elt)
	zzAssert(got == want, "table entry / computed value = Inv(SetUint64(x))")
	prod.Mul(&got, &elt)
	zzAssert(prod.IsOne(), "InvUint64(x) * x = 1")
}
