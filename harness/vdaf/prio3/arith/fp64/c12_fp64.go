package fp64

// C12/C19: the 64-bit Prio3 field p = 2^64 - 2^32 + 1.  Equality / zero tests decide equality of
// the (unique, reduced) Montgomery representations; add/sub/mul satisfy the fiat-crypto contracts.

const zzP = "0xffffffff00000001"

func zzFp(name string) *Fp {
	x := new(Fp)
	zzFill(name, x)
	zzAssumeNote(x[0] < orderP0, "operands are reduced field elements (< p), the representation invariant of Fp")
	return x
}

//zz: prop=C12 tier=quick backend=bv timeout=120
func ZZ_C12_fp64_equality_tests() {
	x, y := zzFp("x"), zzFp("y")
	zzAssert(zzIff(x.IsEqual(y), x[0] == y[0]), "IsEqual iff same element")
	zzAssert(zzIff(x.IsZero(), x[0] == 0), "IsZero iff zero")
	var one Fp
	one.SetOne()
	zzAssert(zzIff(x.IsOne(), x[0] == one[0]), "IsOne iff one")
}

//zz: prop=C19 tier=quick backend=bv timeout=120
func ZZ_C19_fp64_equality_tests() { ZZ_C12_fp64_equality_tests() }

//zz: prop=C12 tier=quick backend=lia timeout=300
func ZZ_C12_fp64_add_sub() {
	x, y := zzFp("x"), zzFp("y")
	var s, d Fp
	s.Add(x, y)
	d.Sub(x, y)
	zzAssert(zzWCong(zzWU(s[0]), zzWAdd(zzWU(x[0]), zzWU(y[0])), zzP), "add congruent")
	zzAssert(s[0] < orderP0, "add reduced")
	zzAssert(zzWCong(zzWU(d[0]), zzWSub(zzWU(x[0]), zzWU(y[0])), zzP), "sub congruent")
	zzAssert(d[0] < orderP0, "sub reduced")
}

// Montgomery multiplication: z * 2^64 ≡ x*y (mod p), z < p
//
//zz: prop=C12 tier=quick backend=lia timeout=300
func ZZ_C12_fp64_mul() {
	x, y := zzFp("x"), zzFp("y")
	var z Fp
	z.Mul(x, y)
	xs, ys := []uint64{x[0]}, []uint64{y[0]}
	zzAssumeNote(zzWLe(zzWMulLimbs64(xs, ys), zzWConst("0xfffffffe000000010000000000000000")), "x, y < p implies x*y <= (p-1)^2 (elementary fact about the abstracted 64x64 product)")
	zzAssert(zzWCong(zzWShl(zzWU(z[0]), 64), zzWMulLimbs64(xs, ys), zzP), "mul: z*R ≡ x*y")
	zzAssert(z[0] < orderP0, "mul reduced")
}
