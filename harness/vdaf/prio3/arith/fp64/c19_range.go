package fp64

// C19: isInRange accepts an 8-byte string exactly when the little-endian integer is below
// p = 2^64 - 2^32 + 1, for every string (see fp128/c19_range.go).

//zz: prop=C19 also=C09 tier=quick backend=bv timeout=120
func ZZ_C19_fp64_isInRange_is_integer_comparison() {
	var b [Size]byte
	zzFill("b", &b)
	out, ok := isInRange(&b)
	var lo uint64
	for i := 7; i >= 0; i-- {
		lo = lo<<8 | uint64(b[i])
	}
	zzAssert(zzIff(ok, lo < 0xffffffff00000001), "accepted iff the encoded integer is below p")
	zzAssert(out[0] == lo, "the returned word is the encoded integer")
}
