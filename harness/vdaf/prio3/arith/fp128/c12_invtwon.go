package fp128

// C12/C19: InvTwoN(n) is the inverse of 2^n for every exponent the field admits (n = 0 .. 66, the
// number of roots of unity of the 128-bit field; 2^n for n >= 64 does not fit a machine word):
// InvTwoN(n) * 2^n = 1 with 2^n built by n doublings.  The exponent is a bounded symbolic value (one
// path per value, concrete field data on each path).

//zz: prop=C12 also=C19 tier=quick backend=bv timeout=300
func ZZ_C12_fp128_InvTwoN_inverts_every_power_of_two() {
	n := uint(zzLen("n", 0, numRootsUnity))
	var inv, pow, prod Fp
	inv.InvTwoN(n)
	pow.SetOne()
	for i := uint(0); i < n; i++ {
		pow.Add(&pow, &pow)
	}
	prod.Mul(&inv, &pow)
	zzAssert(prod.IsOne(), "InvTwoN(n) * 2^n = 1")
}
