package fp128

// C19 ("every protocol message survives a marshal/unmarshal round trip"; decoders refuse
// non-canonical field elements): isInRange - the range check behind Fp.Unmarshal, Vec.Unmarshal
// and the rejection samplers - accepts a 16-byte string exactly when the little-endian integer is
// below p = 2^128 - 28*2^64 + 1, for every string; the words it returns are the encoded integer.

//zz: prop=C19 also=C09 tier=quick backend=bv timeout=120
func ZZ_C19_fp128_isInRange_is_integer_comparison() {
	var b [Size]byte
	zzFill("b", &b)
	out, ok := isInRange(&b)
	var lo, hi uint64
	for i := 7; i >= 0; i-- {
		lo = lo<<8 | uint64(b[i])
		hi = hi<<8 | uint64(b[8+i])
	}
	// p = 0xffffffffffffffe4_0000000000000001
	below := hi < 0xffffffffffffffe4 || (hi == 0xffffffffffffffe4 && lo == 0)
	zzAssert(zzIff(ok, below), "accepted iff the encoded integer is below p")
	zzAssert(out[0] == lo && out[1] == hi, "the returned words are the encoded integer")
}
