package fp128

// C12/C19: the 128-bit Prio3 field p = 2^128 - 7*2^66 + 1 (two limbs).

const zzP = "0xffffffffffffffe40000000000000001"

func zzFp(name string) *Fp {
	x := new(Fp)
	zzFill(name, x)
	zzAssumeNote(zzOr2(x[1] < orderP1, zzAnd2(x[1] == orderP1, x[0] < orderP0)), "operands are reduced field elements (< p)")
	return x
}

//zz: prop=C12 tier=quick backend=bv timeout=120
func ZZ_C12_fp128_equality_tests() {
	x, y := zzFp("x"), zzFp("y")
	zzAssert(zzIff(x.IsEqual(y), zzAnd2(x[0] == y[0], x[1] == y[1])), "IsEqual iff same element")
	zzAssert(zzIff(x.IsZero(), zzAnd2(x[0] == 0, x[1] == 0)), "IsZero iff zero")
}

//zz: prop=C19 tier=quick backend=bv timeout=120
func ZZ_C19_fp128_equality_tests() { ZZ_C12_fp128_equality_tests() }

//zz: prop=C12 tier=quick backend=lia timeout=300
func ZZ_C12_fp128_add_sub() {
	x, y := zzFp("x"), zzFp("y")
	var s, d Fp
	s.Add(x, y)
	d.Sub(x, y)
	zzAssert(zzWCong(zzWLE64(s[:]), zzWAdd(zzWLE64(x[:]), zzWLE64(y[:])), zzP), "add congruent")
	zzAssert(zzWLt(zzWLE64(s[:]), zzWConst(zzP)), "add reduced")
	zzAssert(zzWCong(zzWLE64(d[:]), zzWSub(zzWLE64(x[:]), zzWLE64(y[:])), zzP), "sub congruent")
	zzAssert(zzWLt(zzWLE64(d[:]), zzWConst(zzP)), "sub reduced")
}
