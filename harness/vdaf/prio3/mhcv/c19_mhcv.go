package mhcv

// C19: the MultihotCountVec constructor: never panics, degenerate parameters are errors.
//
//zz: prop=C19 tier=quick backend=bv timeout=120
func ZZ_C19_mhcv_constructor() {
	length, maxWeight, chunk := zzUint("length"), zzUint("maxWeight"), zzUint("chunkLength")
	zzAssumeNote(length < 1<<20, "bound: length < 2^20")
	m, err := newFlpMultiCountHotVec(length, maxWeight, chunk)
	if chunk == 0 || length == 0 || maxWeight > length {
		zzAssert(err != nil, "degenerate parameters are errors")
	}
	if err == nil {
		zzAssert(m.Valid.MeasurementLen == length+m.bits, "MeasurementLen = length + bits")
		pow := uint64(1) << m.bits
		zzAssert(uint64(maxWeight) < pow && (m.bits == 0 || uint64(maxWeight) >= pow>>1), "bits = bit length of maxWeight")
	}
}
