package mhcv

// C19: the MultihotCountVec constructor: never panics, degenerate parameters are errors.
//
//zz: prop=C19 tier=quick backend=bv timeout=120
func ZZ_C19_mhcv_constructor() {
	length, maxWeight, chunk := zzUint("length"), zzUint("maxWeight"), zzUint("chunkLength")
	zzAssumeNote(length < 1<<20, "bound: length < 2^20")
	m, err := newFlpMultiCountHotVec(length, maxWeight, chunk)
	if chunk == 0 || length == 0 || maxWeight > length {
		zzAssert(err != nil, "degenerate parameters are errors")
	}
	if err == nil {
		zzAssert(m.Valid.MeasurementLen == length+m.bits, "MeasurementLen = length + bits")
		pow := uint64(1) << m.bits
		zzAssert(uint64(maxWeight) < pow && (m.bits == 0 || uint64(maxWeight) >= pow>>1), "bits = bit length of maxWeight")
	}
}

// C19 ("a report whose measurement is outside the valid set is rejected"): the range check walks
// the encoded measurement in chunks; every element, including the last partial chunk (the top
// bits of the reported weight), must be covered by a gadget call: NumGadgetCalls =
// ceil(MeasurementLen / chunkLength).  Bound: length, chunkLength < 256.
//
//zz: prop=C19 tier=quick backend=bv timeout=300
func ZZ_C19_mhcv_gadget_calls_cover_the_measurement() {
	length, maxWeight, chunk := uint(zzU8("length")), uint(zzU8("maxWeight")), uint(zzU8("chunkLength"))
	if zzThorough() {
		length, maxWeight, chunk = uint(zzU16("length16")), uint(zzU16("maxWeight16")), uint(zzU16("chunkLength16"))
		zzAssumeNote(length < 1024 && chunk < 1024, "bound (thorough tier): length, chunkLength < 1024")
	}
	m, err := newFlpMultiCountHotVec(length, maxWeight, chunk)
	if err != nil {
		return
	}
	zzReach("constructed")
	calls := m.NumGadgetCalls
	zzAssert(calls >= 1 && calls*chunk >= m.Valid.MeasurementLen && (calls-1)*chunk < m.Valid.MeasurementLen, "gadget calls = ceil(MeasurementLen / chunkLength): the bit check covers the whole measurement")
	zzAssert(m.Valid.JointRandLen == calls, "one joint-randomness element per gadget call")
}
