package histogram

// C19: the Histogram constructor for all (shares, length, chunk length): never panics; a zero
// chunk length or fewer than two aggregators is an error.
//
//zz: prop=C19 tier=quick backend=bv timeout=120
func ZZ_C19_histogram_New() {
	length, chunk := zzUint("length"), zzUint("chunkLength")
	shares := zzU8("numShares")
	zzAssumeNote(length < 1<<20, "bound: length < 2^20")
	h, err := New(shares, length, chunk, []byte("ctx"))
	if chunk == 0 {
		zzAssert(err != nil, "zero chunk length is an error")
	}
	if shares < 2 {
		zzAssert(err != nil, "fewer than two aggregators is an error")
	}
	if err == nil {
		zzAssert(h != nil, "constructor returns an instance")
	}
}

// C19/C10: Histogram measurement encoding for every 64-bit measurement (length 1..6): a measurement
// outside {0..length-1} is refused with an error - never a panic - and an accepted one encodes as
// the one-hot vector with the one at its own index.
//
//zz: prop=C19 also=C10 tier=quick backend=bv timeout=120 maxpaths=4000
func ZZ_C19_histogram_Encode_validates_measurement() {
	length := uint(zzPick("length", 1, 2, 3, 6))
	m := zzU64("measurement")
	h := newFlpHistogram(length, 2)
	out, err := h.Encode(m)
	zzAssert(zzIff(err != nil, m >= uint64(length)), "measurement refused iff it is not a bucket index")
	if err != nil {
		return
	}
	zzReach("accepted")
	zzAssert(uint(len(out)) == length, "encoding has one element per bucket")
	ok := []bool{}
	for i := range out {
		if uint64(i) == m {
			ok = append(ok, out[i].IsOne())
		} else {
			ok = append(ok, out[i].IsZero())
		}
	}
	zzAssert(zzAnd(ok...), "one-hot at the measurement's index")
}

// C19: every element of the encoded measurement is covered by a gadget call of the range check:
// NumGadgetCalls = ceil(length / chunkLen).  Bound: length, chunkLen < 256 (chunkLen > 0 is checked
// by New).
//
//zz: prop=C19 tier=quick backend=bv timeout=300
func ZZ_C19_histogram_gadget_calls_cover_the_measurement() {
	length, chunk := uint(zzU8("length")), uint(zzU8("chunkLen"))
	if zzThorough() {
		length, chunk = uint(zzU16("length16")), uint(zzU16("chunkLen16"))
		zzAssumeNote(length < 4096 && chunk < 4096, "bound (thorough tier): length, chunkLen < 4096")
	}
	zzAssumeNote(chunk > 0 && length > 0, "New refuses a zero length or chunk length")
	h := newFlpHistogram(length, chunk)
	calls := h.NumGadgetCalls
	zzAssert(calls >= 1 && calls*chunk >= h.Valid.MeasurementLen && (calls-1)*chunk < h.Valid.MeasurementLen, "gadget calls = ceil(length / chunkLen)")
	zzAssert(h.Valid.JointRandLen == calls && h.Valid.MeasurementLen == length, "lengths")
}
