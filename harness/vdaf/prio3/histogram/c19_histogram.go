package histogram

// C19: the Histogram constructor for all (shares, length, chunk length): never panics; a zero
// chunk length or fewer than two aggregators is an error.
//
//zz: prop=C19 tier=quick backend=bv timeout=120
func ZZ_C19_histogram_New() {
	length, chunk := zzUint("length"), zzUint("chunkLength")
	shares := zzU8("numShares")
	zzAssumeNote(length < 1<<20, "bound: length < 2^20")
	h, err := New(shares, length, chunk, []byte("ctx"))
	if chunk == 0 {
		zzAssert(err != nil, "zero chunk length is an error")
	}
	if shares < 2 {
		zzAssert(err != nil, "fewer than two aggregators is an error")
	}
	if err == nil {
		zzAssert(h != nil, "constructor returns an instance")
	}
}
