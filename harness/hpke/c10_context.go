package hpke

// C08/C10: a context that UnmarshalSealer / UnmarshalOpener accepts satisfies the representation
// invariant (key, base nonce and sequence number have the suite's sizes), so that the first
// Seal / Open / Export on it cannot panic.  The serialized form is a valid context of the suite
// (X25519, HKDF-SHA256, AES-128-GCM) in which ONE of the four length prefixes and all field bytes are
// symbolic (the field whose length varies is chosen per path).
func zzContextBytes(role byte, which int) []byte {
	lens := [4]int{32, 16, 12, 12} // exporter secret (Nh), key (Nk), base nonce (Nn), seq (Nn)
	l := zzLen("fieldlen", 0, 34)
	lens[which] = l
	raw := []byte{role, 0x00, 0x20, 0x00, 0x01, 0x00, 0x01}
	for f := 0; f < 4; f++ {
		raw = append(raw, byte(lens[f]))
		field := make([]byte, lens[f])
		zzFill("field", field)
		raw = append(raw, field...)
	}
	return raw
}

//zz: prop=C10 tier=quick backend=bv maxpaths=100000 budget=300
func ZZ_C10_hpke_unmarshalled_opener_usable() {
	which := zzPick("which", 0, 1, 2, 3)
	raw := zzContextBytes(1, which)
	o, err := UnmarshalOpener(raw)
	if err != nil {
		return
	}
	oc := o.(*openContext)
	zzAssert(len(oc.sequenceNumber) == 12 && len(oc.baseNonce) == 12 && len(oc.nonce) == 12 && len(oc.key) == 16 && len(oc.exporterSecret) == 32, "accepted context satisfies the size invariant")
	oc.AEAD = &zzAEAD{}
	ct := make([]byte, 17)
	zzFill("ct", ct)
	_, _ = o.Open(ct, nil)
}

//zz: prop=C10 tier=quick backend=bv maxpaths=100000 budget=300
func ZZ_C10_hpke_unmarshalled_sealer_usable() {
	which := zzPick("which", 0, 1, 2, 3)
	raw := zzContextBytes(0, which)
	s, err := UnmarshalSealer(raw)
	if err != nil {
		return
	}
	sc := s.(*sealContext)
	zzAssert(len(sc.sequenceNumber) == 12 && len(sc.baseNonce) == 12 && len(sc.nonce) == 12 && len(sc.key) == 16 && len(sc.exporterSecret) == 32, "accepted context satisfies the size invariant")
	sc.AEAD = &zzAEAD{}
	pt := make([]byte, 1)
	zzFill("pt", pt)
	_, _ = s.Seal(pt, nil)
}

//zz: prop=C08 tier=quick backend=bv maxpaths=100000 budget=300
func ZZ_C08_unmarshalled_context_invariant() {
	if zzPick("role", 0, 1) == 0 {
		ZZ_C10_hpke_unmarshalled_sealer_usable()
	} else {
		ZZ_C10_hpke_unmarshalled_opener_usable()
	}
}

// C11/C08: a restored context owns its state.  Sealing / opening on a context obtained from
// UnmarshalSealer / UnmarshalOpener does not write to the byte string it was decoded from (the
// caller's operand), and two contexts decoded from the same bytes advance independently: the second
// one still seals its first message under sequence number = the encoded one.  All field bytes
// symbolic; AEAD = uninterpreted stub.
//
//zz: prop=C11 also=C08 tier=quick backend=bv timeout=300
func ZZ_C11_hpke_unmarshalled_context_owns_its_state() {
	raw := []byte{0, 0x00, 0x20, 0x00, 0x01, 0x00, 0x01}
	for _, n := range []int{32, 16, 12, 12} {
		raw = append(raw, byte(n))
		field := make([]byte, n)
		zzFill("field", field)
		raw = append(raw, field...)
	}
	before := append([]byte{}, raw...)
	a, err := UnmarshalSealer(raw)
	b, err2 := UnmarshalSealer(raw)
	zzAssert(err == nil && err2 == nil, "a well-formed context decodes")
	sa, sb := a.(*sealContext), b.(*sealContext)
	sa.AEAD, sb.AEAD = &zzAEAD{}, &zzAEAD{}
	seq0 := append([]byte{}, sb.sequenceNumber...)
	pt := []byte{1}
	_, e1 := a.Seal(pt, nil)
	zzAssert(zzBytesEq(raw, before), "sealing on a restored context leaves the decoded byte string unchanged")
	if e1 == nil {
		zzAssert(zzBytesEq(sb.sequenceNumber, seq0), "a second context decoded from the same bytes is not advanced by the first")
	}
}

// C08: "a context restored from its marshalled form continues exactly where the original would":
// for every sealer / opener state (exporter secret, key, base nonce and - in particular - every
// 96-bit sequence number, all symbolic) MarshalBinary followed by UnmarshalSealer / UnmarshalOpener
// yields a context with exactly the same fields.
//
//zz: prop=C08 tier=quick backend=bv timeout=300
func ZZ_C08_marshal_unmarshal_preserves_context_state() {
	c := &encdecContext{suite: Suite{KEM_X25519_HKDF_SHA256, KDF_HKDF_SHA256, AEAD_AES128GCM},
		exporterSecret: make([]byte, 32), key: make([]byte, 16), baseNonce: make([]byte, 12), sequenceNumber: make([]byte, 12)}
	zzFill("exporter", c.exporterSecret)
	zzFill("key", c.key)
	zzFill("baseNonce", c.baseNonce)
	zzFill("seq", c.sequenceNumber)
	var back *encdecContext
	if zzPick("role", 0, 1) == 0 {
		raw, err := (&sealContext{c}).MarshalBinary()
		zzAssert(err == nil, "marshalling succeeds")
		s, err := UnmarshalSealer(raw)
		zzAssert(err == nil, "the marshalled sealer is accepted")
		if err != nil {
			return
		}
		back = s.(*sealContext).encdecContext
	} else {
		raw, err := (&openContext{c}).MarshalBinary()
		zzAssert(err == nil, "marshalling succeeds")
		o, err := UnmarshalOpener(raw)
		zzAssert(err == nil, "the marshalled opener is accepted")
		if err != nil {
			return
		}
		back = o.(*openContext).encdecContext
	}
	zzAssert(zzBytesEq(back.sequenceNumber, c.sequenceNumber), "sequence number preserved (every value, also multiples of 256)")
	zzAssert(zzAnd(zzBytesEq(back.baseNonce, c.baseNonce), zzBytesEq(back.key, c.key), zzBytesEq(back.exporterSecret, c.exporterSecret)), "base nonce, key and exporter secret preserved")
	zzAssert(back.suite == c.suite, "suite preserved")
}
