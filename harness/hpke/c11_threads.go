package hpke

import (
	"github.com/cloudflare/circl/dh/x25519"
	"github.com/cloudflare/circl/dh/x448"
)

// C11 (schedules): a private key shared by two goroutines.  Both call Public() for the first time
// concurrently; each must obtain the public key that the call returns when run alone, and the two
// calls must not race.  Thread A is suspended after each of its first stores in turn (zzPick), B
// runs to completion, A resumes; the key bytes are symbolic, scalar multiplication is an
// uninterpreted function (set "xkeygen").

//zz:replace dh/x25519.KeyGen set=xkeygen
func zzStubX25519KeyGen(public, secret *x25519.Key) {
	copy(public[:], zzUF("x25519.keygen", x25519.Size, secret[:]))
}

//zz:replace dh/x448.KeyGen set=xkeygen
func zzStubX448KeyGen(public, secret *x448.Key) {
	copy(public[:], zzUF("x448.keygen", x448.Size, secret[:]))
}

func zzXKEMPublicTwoThreads(s xKEM) {
	priv := make([]byte, s.size)
	zzFill("priv", priv)
	ref := &xKEMPrivKey{scheme: s, priv: append([]byte{}, priv...)}
	want := append([]byte{}, ref.Public().(*xKEMPubKey).pub...)
	k := &xKEMPrivKey{scheme: s, priv: priv}
	var ra, rb []byte
	at := zzPick("suspendAfterStore", 1, 2, 3, 4, 5, 6, 7, 8, 9, 10, 11, 12, 13, 14, 15, 16, 17, 18, 19, 20, 21, 22, 23, 24, 25, 26, 27, 28, 29, 30, 1000)
	pre := zzInterleave(
		func() { ra, _ = k.Public().MarshalBinary() },
		func() { rb, _ = k.Public().MarshalBinary() },
		at)
	if pre {
		zzReach("a schedule in which thread B runs while thread A is suspended")
	}
	zzAssert(zzBytesEq(ra, want), "thread A obtains the public key computed alone")
	zzAssert(zzBytesEq(rb, want), "thread B obtains the public key computed alone")
}

//zz: prop=C11 tier=quick backend=bv use=xkeygen timeout=120
func ZZ_C11_hpke_xkem_Public_two_threads_x25519() { zzXKEMPublicTwoThreads(dhkemx25519hkdfsha256) }

//zz: prop=C11 tier=quick backend=bv use=xkeygen timeout=120
func ZZ_C11_hpke_xkem_Public_two_threads_x448() { zzXKEMPublicTwoThreads(dhkemx448hkdfsha512) }
