package hpke

import (
	"crypto/cipher"

	"github.com/cloudflare/circl/dh/x25519"
	"github.com/cloudflare/circl/dh/x448"
	"github.com/cloudflare/circl/kem"
)

// C11 (schedules): a private key shared by two goroutines.  Both call Public() for the first time
// concurrently; each must obtain the public key that the call returns when run alone, and the two
// calls must not race.  Thread A is suspended after each of its first stores in turn (zzPick), B
// runs to completion, A resumes; the key bytes are symbolic, scalar multiplication is an
// uninterpreted function (set "xkeygen").

//zz:replace dh/x25519.KeyGen set=xkeygen
func zzStubX25519KeyGen(public, secret *x25519.Key) {
	copy(public[:], zzUF("x25519.keygen", x25519.Size, secret[:]))
}

//zz:replace dh/x448.KeyGen set=xkeygen
func zzStubX448KeyGen(public, secret *x448.Key) {
	copy(public[:], zzUF("x448.keygen", x448.Size, secret[:]))
}

func zzXKEMPublicTwoThreads(s xKEM) {
	priv := make([]byte, s.size)
	zzFill("priv", priv)
	ref := &xKEMPrivKey{scheme: s, priv: append([]byte{}, priv...)}
	want := append([]byte{}, ref.Public().(*xKEMPubKey).pub...)
	k := &xKEMPrivKey{scheme: s, priv: priv}
	var ra, rb []byte
	at := zzPick("suspendAfterStore", 1, 2, 3, 4, 5, 6, 7, 8, 9, 10, 11, 12, 13, 14, 15, 16, 17, 18, 19, 20, 21, 22, 23, 24, 25, 26, 27, 28, 29, 30, 1000)
	pre := zzInterleave(
		func() { ra, _ = k.Public().MarshalBinary() },
		func() { rb, _ = k.Public().MarshalBinary() },
		at)
	if pre {
		zzReach("a schedule in which thread B runs while thread A is suspended")
	}
	zzAssert(zzBytesEq(ra, want), "thread A obtains the public key computed alone")
	zzAssert(zzBytesEq(rb, want), "thread B obtains the public key computed alone")
}

//zz: prop=C11 tier=quick backend=bv use=xkeygen timeout=120
func ZZ_C11_hpke_xkem_Public_two_threads_x25519() { zzXKEMPublicTwoThreads(dhkemx25519hkdfsha256) }

//zz: prop=C11 tier=quick backend=bv use=xkeygen timeout=120
func ZZ_C11_hpke_xkem_Public_two_threads_x448() { zzXKEMPublicTwoThreads(dhkemx448hkdfsha512) }

// C11 (histories): the result of a setup call depends only on its arguments and the suite / keys the
// sender or receiver was created with - not on earlier setup calls made on the same object.  After
// SetupPSK (or SetupAuthPSK) a base-mode Setup on the same Sender / Receiver succeeds exactly as
// on a fresh object.  KEM operations, HKDF and the AEAD constructor are uninterpreted (sets
// "kemfree", "hkdfrec"), psk / psk_id symbolic.

//zz:replace (hpke.dhKemBase).EncapsulateDeterministically set=kemfree
func zzStubEncapDet(k dhKemBase, pkr kem.PublicKey, seed []byte) ([]byte, []byte, error) {
	zzEncSeed = append([]byte{}, seed...)
	return zzUF("kem.enc", 32, seed), zzUF("kem.ss", 32, seed), nil
}

//zz:replace (hpke.dhKemBase).Decapsulate set=kemfree
func zzStubDecap(k dhKemBase, skr kem.PrivateKey, ct []byte) ([]byte, error) {
	return zzUF("kem.ss2", 32, ct), nil
}

//zz:replace (hpke.AEAD).New set=kemfree
func zzStubAEADNew(a AEAD, key []byte) (cipher.AEAD, error) { return &zzAEAD{}, nil }

var zzEncSeed []byte

type zzSeedReader struct{}

func (zzSeedReader) Read(p []byte) (int, error) { zzFill("seed", p); return len(p), nil }

//zz: prop=C11 also=C07 tier=quick backend=bv use=kemfree,hkdfrec timeout=300
func ZZ_C11_hpke_setup_independent_of_earlier_setups() {
	if !zzSymbolic() {
		zzModelOnly()
	}
	suite := Suite{KEM_X25519_HKDF_SHA256, KDF_HKDF_SHA256, AEAD_AES128GCM}
	psk, pskID := make([]byte, 32), make([]byte, 2)
	zzFill("psk", psk)
	zzFill("pskID", pskID)
	zzAssumeNote(zzAnd2(psk[0] != 0, pskID[0] != 0), "a PSK and PSK id are given")
	if zzPick("side", 0, 1) == 0 {
		used := &Sender{state: state{Suite: suite, info: []byte("info")}}
		_, _, err := used.SetupPSK(zzSeedReader{}, psk, pskID)
		zzAssert(err == nil, "PSK-mode setup succeeds")
		_, _, errUsed := used.Setup(zzSeedReader{})
		fresh := &Sender{state: state{Suite: suite, info: []byte("info")}}
		_, _, errFresh := fresh.Setup(zzSeedReader{})
		zzAssert(errFresh == nil, "base-mode setup on a fresh sender succeeds")
		zzAssert(errUsed == nil, "base-mode setup after a PSK-mode setup on the same sender succeeds as on a fresh one")
	} else {
		enc := make([]byte, 32)
		zzFill("enc", enc)
		used := &Receiver{state: state{Suite: suite, info: []byte("info")}}
		_, err := used.SetupPSK(enc, psk, pskID)
		zzAssert(err == nil, "PSK-mode setup succeeds")
		_, errUsed := used.Setup(enc)
		fresh := &Receiver{state: state{Suite: suite, info: []byte("info")}}
		_, errFresh := fresh.Setup(enc)
		zzAssert(errFresh == nil, "base-mode setup on a fresh receiver succeeds")
		zzAssert(errUsed == nil, "base-mode setup after a PSK-mode setup on the same receiver succeeds as on a fresh one")
	}
}
