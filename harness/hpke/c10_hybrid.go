package hpke

import (
	"errors"

	"github.com/cloudflare/circl/kem"
)

// component KEM stub with the real KEM contract: wrong lengths are errors, everything else an
// uninterpreted function of the input bytes

type zzScheme struct {
	name               string
	ct, ss, sk, pk, sd int
}
type zzKey struct {
	s    *zzScheme
	data []byte
}

func (k *zzKey) Scheme() kem.Scheme               { return k.s }
func (k *zzKey) MarshalBinary() ([]byte, error)   { return k.data, nil }
func (k *zzKey) Equal(o kem.PublicKey) bool       { return false }
func (k *zzKey) Public() kem.PublicKey            { return k }
func (s *zzScheme) Name() string                  { return s.name }
func (s *zzScheme) CiphertextSize() int           { return s.ct }
func (s *zzScheme) SharedKeySize() int            { return s.ss }
func (s *zzScheme) PrivateKeySize() int           { return s.sk }
func (s *zzScheme) PublicKeySize() int            { return s.pk }
func (s *zzScheme) SeedSize() int                 { return s.sd }
func (s *zzScheme) EncapsulationSeedSize() int    { return s.sd }
func (s *zzScheme) GenerateKeyPair() (kem.PublicKey, kem.PrivateKey, error) {
	return &zzKey{s, make([]byte, s.pk)}, &zzPriv{zzKey{s, make([]byte, s.sk)}}, nil
}

type zzPriv struct{ zzKey }

func (k *zzPriv) Equal(o kem.PrivateKey) bool { return false }

var errZZSize = errors.New("zz: wrong size")

func (s *zzScheme) Encapsulate(pk kem.PublicKey) (ct, ss []byte, err error) {
	return zzUF(s.name+".ct", s.ct), zzUF(s.name+".ss", s.ss), nil
}
func (s *zzScheme) EncapsulateDeterministically(pk kem.PublicKey, seed []byte) (ct, ss []byte, err error) {
	if len(seed) != s.sd {
		return nil, nil, errZZSize
	}
	return zzUF(s.name+".ct", s.ct, seed), zzUF(s.name+".ss", s.ss, seed), nil
}
func (s *zzScheme) Decapsulate(sk kem.PrivateKey, ct []byte) ([]byte, error) {
	if len(ct) != s.ct {
		return nil, errZZSize
	}
	return zzUF(s.name+".dec", s.ss, ct), nil
}
func (s *zzScheme) UnmarshalBinaryPublicKey(b []byte) (kem.PublicKey, error) {
	if len(b) != s.pk {
		return nil, errZZSize
	}
	return &zzKey{s, b}, nil
}
func (s *zzScheme) UnmarshalBinaryPrivateKey(b []byte) (kem.PrivateKey, error) {
	if len(b) != s.sk {
		return nil, errZZSize
	}
	return &zzPriv{zzKey{s, b}}, nil
}
func (s *zzScheme) DeriveKeyPair(seed []byte) (kem.PublicKey, kem.PrivateKey) {
	return &zzKey{s, zzUF(s.name+".pk", s.pk, seed)}, &zzPriv{zzKey{s, zzUF(s.name+".sk", s.sk, seed)}}
}

func zzHybrid() hybridKEM {
	return hybridKEM{kemA: &zzScheme{"A", 5, 4, 3, 6, 4}, kemB: &zzScheme{"B", 7, 4, 5, 2, 4}}
}

// C10 / C01: the HPKE hybrid KEM returns an error (never panics) for ciphertexts and encoded keys
// of every length, and accepts exactly the advertised sizes
//
//zz: prop=C10 tier=quick backend=bv
func ZZ_C10_hpke_hybridKEM_lengths() {
	h := zzHybrid()
	_, sk, _ := h.kemA.GenerateKeyPair()
	_, skB, _ := h.kemB.GenerateKeyPair()
	hsk := &hybridKEMPrivKey{privA: sk, privB: skB}
	n := zzLen("len", 0, zzT(14, 40))
	in := make([]byte, n)
	zzFill("in", in)
	switch zzPick("entry", 0, 1, 2) {
	case 0:
		ss, err := h.Decapsulate(hsk, in)
		zzAssert((err == nil) == (n == h.CiphertextSize()), "Decapsulate accepts exactly CiphertextSize bytes")
		if err == nil {
			zzAssert(len(ss) == 8, "shared secret is the concatenation of both components")
		}
	case 1:
		_, err := h.UnmarshalBinaryPublicKey(in)
		zzAssert((err == nil) == (n == h.PublicKeySize()), "UnmarshalBinaryPublicKey accepts exactly PublicKeySize bytes")
	default:
		_, err := h.UnmarshalBinaryPrivateKey(in)
		zzAssert((err == nil) == (n == h.PrivateKeySize()), "UnmarshalBinaryPrivateKey accepts exactly PrivateKeySize bytes")
	}
}

//zz: prop=C01 tier=quick backend=bv
func ZZ_C01_hpke_hybridKEM_lengths() { ZZ_C10_hpke_hybridKEM_lengths() }
