package hpke

import "errors"

// zzAEAD: AEAD as an uninterpreted function with a free success flag (DESIGN §2.5).
// It records the nonce it was handed and the buffer it returned.
type zzAEAD struct {
	nonce   [12]byte
	out     []byte
	calls   int
	failOpen bool
}

var errZZOpen = errors.New("zz: open failed")

func (a *zzAEAD) NonceSize() int { return 12 }
func (a *zzAEAD) Overhead() int  { return 16 }
func (a *zzAEAD) Seal(dst, nonce, pt, aad []byte) []byte {
	a.calls++
	copy(a.nonce[:], nonce)
	r := append(dst, zzUF("aead_seal", len(pt)+16, nonce, pt, aad)...)
	a.out = r[len(dst):] // the buffer handed to the caller
	return r
}
func (a *zzAEAD) Open(dst, nonce, ct, aad []byte) ([]byte, error) {
	a.calls++
	copy(a.nonce[:], nonce)
	if a.failOpen || len(ct) < 16 {
		return nil, errZZOpen
	}
	r := append(dst, zzUF("aead_open", len(ct)-16, nonce, ct, aad)...)
	a.out = r[len(dst):]
	return r, nil
}

func zzNewCtx(a *zzAEAD) *encdecContext {
	c := &encdecContext{AEAD: a, baseNonce: make([]byte, 12), sequenceNumber: make([]byte, 12), nonce: make([]byte, 12)}
	zzFill("base", c.baseNonce)
	zzFill("seq", c.sequenceNumber)
	zzFill("nonce_scratch", c.nonce) // arbitrary stale scratch contents
	return c
}

func zzBE96(b []byte) (hi uint32, lo uint64) {
	hi = uint32(b[0])<<24 | uint32(b[1])<<16 | uint32(b[2])<<8 | uint32(b[3])
	for i := 4; i < 12; i++ {
		lo = lo<<8 | uint64(b[i])
	}
	return
}

// One Seal from an arbitrary (base, seq) state: nonce = base XOR seq; seq+1 unless
// seq = 2^96-1, in which case error, nil result and wiped AEAD output.
//
//zz: prop=C08 tier=quick backend=bv
func ZZ_C08_seal_step() {
	a := &zzAEAD{}
	c := &sealContext{zzNewCtx(a)}
	n := zzLen("ptlen", 0, zzT(2, 9))
	pt := make([]byte, n)
	zzFill("pt", pt)
	aad := make([]byte, 1)
	zzFill("aad", aad)
	var seq0, base0 [12]byte
	copy(seq0[:], c.sequenceNumber)
	copy(base0[:], c.baseNonce)
	hi0, lo0 := zzBE96(seq0[:])

	ct, err := c.Seal(pt, aad)

	atMax := hi0 == 0xFFFFFFFF && lo0 == 0xFFFFFFFFFFFFFFFF
	// (at the maximum an implementation may fail before or after the AEAD call)
	zzAssert(a.calls == 1 || (atMax && a.calls == 0), "exactly one AEAD call")
	for i := 0; i < 12; i++ {
		if a.calls == 1 {
			zzAssert(a.nonce[i] == base0[i]^seq0[i], "nonce = base_nonce XOR seq")
		}
		zzAssert(c.baseNonce[i] == base0[i], "base nonce immutable")
	}
	zzAssert(len(c.sequenceNumber) == 12 && len(c.baseNonce) == 12 && len(c.nonce) == 12, "lengths preserved")
	if atMax {
		zzAssert(err != nil, "overflow reports error")
		zzAssert(ct == nil, "overflow releases no ciphertext")
		hi1, lo1 := zzBE96(c.sequenceNumber)
		zzAssert(hi1 == hi0 && lo1 == lo0, "a seal that fails at the maximum leaves the sequence number at the maximum")
		for i := range a.out {
			zzAssert(a.out[i] == 0, "overflow wipes AEAD output buffer")
		}
	} else {
		zzAssert(err == nil, "no error below maximum")
		hi1, lo1 := zzBE96(c.sequenceNumber)
		wantLo := lo0 + 1
		wantHi := hi0
		if wantLo == 0 {
			wantHi++
		}
		zzAssert(lo1 == wantLo && hi1 == wantHi, "seq incremented by one (96-bit big endian)")
		zzAssert(len(ct) == n+16, "ciphertext returned")
		zzAssert(zzBytesEq(ct, a.out), "ciphertext is the AEAD output")
	}
}

// One Open from an arbitrary state with a free AEAD verdict.
//
//zz: prop=C08 tier=quick backend=bv
func ZZ_C08_open_step() {
	a := &zzAEAD{}
	a.failOpen = zzBool("aead_fails")
	c := &openContext{zzNewCtx(a)}
	n := zzLen("ctlen", 15, zzT(18, 26))
	ct := make([]byte, n)
	zzFill("ct", ct)
	var seq0, base0 [12]byte
	copy(seq0[:], c.sequenceNumber)
	copy(base0[:], c.baseNonce)
	hi0, lo0 := zzBE96(seq0[:])

	pt, err := c.Open(ct, nil)

	for i := 0; i < 12; i++ {
		if a.calls > 0 {
			zzAssert(a.nonce[i] == base0[i]^seq0[i], "nonce = base_nonce XOR seq")
		}
	}
	hi1, lo1 := zzBE96(c.sequenceNumber)
	if a.failOpen || n < 16 {
		zzAssert(err != nil && pt == nil, "failed open returns error")
		zzAssert(hi1 == hi0 && lo1 == lo0, "failed open leaves seq unchanged")
	} else if hi0 == 0xFFFFFFFF && lo0 == 0xFFFFFFFFFFFFFFFF {
		zzAssert(err != nil && pt == nil, "overflow reports error, no plaintext")
		zzAssert(hi1 == hi0 && lo1 == lo0, "an open that fails at the maximum leaves the sequence number unchanged")
		for i := range a.out {
			zzAssert(a.out[i] == 0, "overflow wipes plaintext buffer")
		}
	} else {
		zzAssert(err == nil, "no error")
		wantLo := lo0 + 1
		wantHi := hi0
		if wantLo == 0 {
			wantHi++
		}
		zzAssert(lo1 == wantLo && hi1 == wantHi, "seq incremented by one")
		zzAssert(zzBytesEq(pt, a.out), "plaintext is the AEAD output")
	}
}

// x -> base XOR x is injective: different sequence numbers give different nonces.
//
//zz: prop=C08 tier=quick backend=bv
func ZZ_C08_nonce_injective() {
	a1, a2 := &zzAEAD{}, &zzAEAD{}
	c1 := zzNewCtx(a1)
	c2 := &encdecContext{AEAD: a2, baseNonce: c1.baseNonce, sequenceNumber: make([]byte, 12), nonce: make([]byte, 12)}
	zzFill("seq2", c2.sequenceNumber)
	n1 := append([]byte{}, c1.calcNonce()...)
	n2 := append([]byte{}, c2.calcNonce()...)
	zzAssert(zzImplies(zzBytesEq(n1, n2), zzBytesEq(c1.sequenceNumber, c2.sequenceNumber)), "equal nonces imply equal sequence numbers")
}

// self-test: a wrong claim must be refuted (vacuity / encoding guard)
//
//zz: prop=C08 tier=quick backend=bv expect=fail
func ZZ_C08_selftest_wrongclaim() {
	a := &zzAEAD{}
	c := &sealContext{zzNewCtx(a)}
	var seq0 [12]byte
	copy(seq0[:], c.sequenceNumber)
	_, _ = c.Seal(nil, nil)
	zzAssert(c.sequenceNumber[10] == seq0[10], "byte 10 of seq never changes (false)")
}

// RFC 9180 §5.2: every sealed ciphertext uses nonce = base_nonce XOR I2OSP(seq, Nn) and the
// sequence number advances by exactly one (same step lemmas, registered under C07 as well)
//
//zz: prop=C07 tier=quick backend=bv
func ZZ_C07_seal_open_nonce_sequence() {
	if zzPick("which", 0, 1) == 0 {
		ZZ_C08_seal_step()
	} else {
		ZZ_C08_open_step()
	}
}
