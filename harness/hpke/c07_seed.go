package hpke

import "errors"

// C07: "for every ... encapsulation randomness the encapsulated key ... equal the ones RFC 9180
// defines": the sender hands the KEM exactly the first Nsk bytes of the randomness stream, however
// the io.Reader splits them across Read calls (a reader may return fewer bytes than asked for with a
// nil error), and reports an error - releasing no context - when the stream ends early.  The KEM, HKDF
// and the AEAD constructor are uninterpreted (sets "kemfree", "hkdfrec"); stream bytes symbolic.

type zzChunkReader struct {
	data  []byte
	chunk int
}

func (r *zzChunkReader) Read(p []byte) (int, error) {
	if len(r.data) == 0 {
		return 0, errors.New("zz: end of the randomness stream")
	}
	n := len(p)
	if n > r.chunk {
		n = r.chunk
	}
	if n > len(r.data) {
		n = len(r.data)
	}
	copy(p, r.data[:n])
	r.data = r.data[n:]
	return n, nil
}

//zz: prop=C07 tier=quick backend=bv use=kemfree,hkdfrec timeout=300
func ZZ_C07_sender_setup_consumes_the_whole_encapsulation_seed() {
	if !zzSymbolic() {
		zzModelOnly()
	}
	suite := Suite{KEM_X25519_HKDF_SHA256, KDF_HKDF_SHA256, AEAD_AES128GCM}
	n := suite.kemID.Scheme().EncapsulationSeedSize()
	avail := zzPick("avail", n+3, n, n-1, 1, 0)
	stream := make([]byte, avail)
	zzFill("stream", stream)
	rd := &zzChunkReader{data: append([]byte{}, stream...), chunk: zzPick("chunk", 1, 5, n/2, n-1, n, n+8)}
	zzEncSeed = nil
	s := &Sender{state: state{Suite: suite, info: []byte("info")}}
	enc, sealer, err := s.Setup(rd)
	if avail < n {
		zzAssert(err != nil && sealer == nil && enc == nil, "a randomness stream shorter than the encapsulation seed is an error and no context is released")
		return
	}
	zzAssert(err == nil, "setup succeeds when the stream holds a whole seed")
	zzAssert(zzBytesEq(zzEncSeed, stream[:n]), "the KEM receives the first Nsk bytes of the stream, whatever the chunking of the reader")
	zzAssert(zzBytesEq(enc, zzUF("kem.enc", 32, stream[:n])), "enc is the deterministic encapsulation under that seed")
}
