package hpke

// C10: UnmarshalSealer / UnmarshalOpener on arbitrary bytes of every length 0..N never panic.
//
//zz: prop=C10 tier=quick backend=bv
func ZZ_C10_hpke_UnmarshalSealer() {
	n := zzLen("rawlen", 0, 12)
	raw := make([]byte, n)
	zzFill("raw", raw)
	_, _ = UnmarshalSealer(raw)
}

//zz: prop=C10 tier=quick backend=bv
func ZZ_C10_hpke_UnmarshalOpener() {
	n := zzLen("rawlen", 0, 12)
	raw := make([]byte, n)
	zzFill("raw", raw)
	_, _ = UnmarshalOpener(raw)
}
