package hpke

// C07: PSK-input rules of RFC 9180 §5.1 (VerifyPSKInputs) for every mode and every
// presence combination of psk / psk_id.
//
//	got_psk = (psk != default_psk); got_psk_id = (psk_id != default_psk_id)
//	if got_psk != got_psk_id: raise
//	if got_psk and mode in [mode_base, mode_auth]: raise
//	if (not got_psk) and mode in [mode_psk, mode_auth_psk]: raise
//
//zz: prop=C07 tier=quick backend=bv
func ZZ_C07_verifyPSKInputs() {
	var st state
	st.modeID = modeID(zzU8("mode"))
	zzAssume(st.modeID <= 3)
	var psk, pskID []byte
	// three forms of each input: nil, empty but non-nil, non-empty.  RFC 9180: default_psk and
	// default_psk_id are the EMPTY string, so "given" means non-empty
	pskForm := zzPick("pskForm", 0, 1, 2)
	idForm := zzPick("pskIDForm", 0, 1, 2)
	gotPSK, gotID := pskForm == 2, idForm == 2
	switch pskForm {
	case 1:
		psk = []byte{}
	case 2:
		psk = make([]byte, 1+zzPick("psklen", 0, 31))
		zzFill("psk", psk)
	}
	switch idForm {
	case 1:
		pskID = []byte{}
	case 2:
		pskID = make([]byte, 1)
		zzFill("pskid", pskID)
	}
	err := st.verifyPSKInputs(psk, pskID)
	isPSKMode := zzOr2(st.modeID == modePSK, st.modeID == modeAuthPSK)
	mustFail := gotPSK != gotID
	if gotPSK == gotID {
		if gotPSK {
			zzAssert(zzIff(err != nil, zzNot(isPSKMode)), "PSK given: error iff mode is base/auth")
		} else {
			zzAssert(zzIff(err != nil, isPSKMode), "no PSK: error iff mode is psk/auth_psk")
		}
	}
	if mustFail {
		zzAssert(err != nil, "psk and psk_id must come together")
	}
}
