package hpke

import (
	"hash"
	"io"
)

// C07: LabeledExtract / LabeledExpand of RFC 9180 section 4, for the HPKE suite and for the DH-KEM:
//   labeled_ikm  = "HPKE-v1" || suite_id || label || ikm
//   labeled_info = I2OSP(L, 2) || "HPKE-v1" || suite_id || label || info
// with suite_id = "HPKE" || I2OSP(kem_id,2) || I2OSP(kdf_id,2) || I2OSP(aead_id,2) resp.
// "KEM" || I2OSP(kem_id,2), for symbolic label / ikm / info bytes and output lengths L on both sides
// of 256 (both bytes of the length field).  HKDF is a recorder (set "hkdfrec").

var zzHkdfSecret, zzHkdfSalt, zzHkdfPRK, zzHkdfInfo []byte

type zzUFReader struct{ key, info []byte }

func (r zzUFReader) Read(p []byte) (int, error) {
	copy(p, zzUF("hkdf.expand", len(p), r.key, r.info))
	return len(p), nil
}

//zz:replace golang.org/x/crypto/hkdf.Expand set=hkdfrec
func zzStubHkdfExpand(h func() hash.Hash, prk, info []byte) io.Reader {
	zzHkdfPRK, zzHkdfInfo = append([]byte{}, prk...), append([]byte{}, info...)
	return zzUFReader{zzHkdfPRK, zzHkdfInfo}
}

//zz:replace golang.org/x/crypto/hkdf.Extract set=hkdfrec
func zzStubHkdfExtract(h func() hash.Hash, secret, salt []byte) []byte {
	zzHkdfSecret, zzHkdfSalt = append([]byte{}, secret...), append([]byte{}, salt...)
	return zzUF("hkdf.extract", 32, secret, salt)
}

func zzCat(parts ...[]byte) []byte {
	var out []byte
	for _, p := range parts {
		out = append(out, p...)
	}
	return out
}

//zz: prop=C07 tier=quick backend=bv use=hkdfrec timeout=120
func ZZ_C07_labeled_extract_expand_are_RFC9180() {
	if !zzSymbolic() {
		zzModelOnly() // HKDF is a recorder here
	}
	suite := Suite{KEM_X25519_HKDF_SHA256, KDF_HKDF_SHA256, AEAD_AES128GCM}
	suiteID := []byte{'H', 'P', 'K', 'E', 0x00, 0x20, 0x00, 0x01, 0x00, 0x01}
	if zzPick("suite", 0, 1) == 1 {
		// the only registered identifier that needs both bytes of its 16-bit field
		suite = Suite{KEM_XWING, KDF_HKDF_SHA256, AEAD_ChaCha20Poly1305}
		suiteID = []byte{'H', 'P', 'K', 'E', 0x64, 0x7a, 0x00, 0x01, 0x00, 0x03}
	}
	label := make([]byte, zzPick("labellen", 0, 3, zzT(3, 9)))
	data := make([]byte, zzPick("datalen", 0, 2, zzT(2, 33)))
	prk := make([]byte, 32)
	zzFill("label", label)
	zzFill("data", data)
	zzFill("prk", prk)
	l := uint16(zzPick("L", 0, 1, 32, 255, 256, 257, 288, 8160))
	kemID := []byte{'K', 'E', 'M', 0x00, 0x20}
	v := []byte("HPKE-v1")
	li := []byte{byte(l >> 8), byte(l)}
	switch zzPick("function", 0, 1, 2, 3) {
	case 0:
		out := suite.labeledExpand(prk, label, data, l)
		zzAssert(zzBytesEq(zzHkdfInfo, zzCat(li, v, suiteID, label, data)), "suite LabeledExpand: labeled_info = I2OSP(L,2) || HPKE-v1 || suite_id || label || info")
		zzAssert(len(out) == int(l) && zzBytesEq(zzHkdfPRK, prk), "suite LabeledExpand: L bytes expanded from prk")
	case 1:
		_ = suite.labeledExtract(prk, label, data)
		zzAssert(zzBytesEq(zzHkdfSecret, zzCat(v, suiteID, label, data)), "suite LabeledExtract: labeled_ikm = HPKE-v1 || suite_id || label || ikm")
		zzAssert(zzBytesEq(zzHkdfSalt, prk), "suite LabeledExtract: salt passed through")
	case 2:
		k := dhkemx25519hkdfsha256.kemBase
		out := k.labeledExpand(prk, label, data, l)
		zzAssert(zzBytesEq(zzHkdfInfo, zzCat(li, v, kemID, label, data)), "KEM LabeledExpand: labeled_info = I2OSP(L,2) || HPKE-v1 || KEM || kem_id || label || info")
		zzAssert(len(out) == int(l), "KEM LabeledExpand: L bytes")
	case 3:
		k := dhkemx25519hkdfsha256.kemBase
		_ = k.labeledExtract(prk, label, data)
		zzAssert(zzBytesEq(zzHkdfSecret, zzCat(v, kemID, label, data)), "KEM LabeledExtract: labeled_ikm = HPKE-v1 || KEM || kem_id || label || ikm")
	}
}
