package expander

import (
	"crypto"

	"github.com/cloudflare/circl/xof"
)

// C11 ("no call changes an operand"): the domain-separation tag handed to an expander may be a
// window of a larger buffer (cap(dst) > len(dst)), e.g. dst||msg on the wire.  Expand builds
// DST' = dst || len(dst) - it must do so in storage of its own: for every buffer content, dst
// length 0..4 of an 8-byte buffer and both expanders, the whole buffer is unchanged afterwards.

//zz: prop=C11 tier=quick backend=bv use=xmdhash timeout=300
func ZZ_C11_expander_xmd_leaves_the_dst_backing_array_alone() {
	buf := make([]byte, 8)
	zzFill("buf", buf)
	before := append([]byte{}, buf...)
	l := zzPick("dstlen", 0, 1, 4, zzT(4, 7), zzT(4, 8))
	msg := make([]byte, 2)
	zzFill("msg", msg)
	_, _ = zzExpandXMD(NewExpanderMD(crypto.SHA256, buf[:l]), msg, 33)
	zzAssert(zzBytesEq(buf, before), "the bytes behind the tag (and the tag) are unchanged")
}

//zz: prop=C11 tier=quick backend=bv use=keccakuf timeout=300
func ZZ_C11_expander_xof_leaves_the_dst_backing_array_alone() {
	buf := make([]byte, 8)
	zzFill("buf", buf)
	before := append([]byte{}, buf...)
	l := zzPick("dstlen", 0, 1, 4)
	msg := make([]byte, 2)
	zzFill("msg", msg)
	_, _ = zzExpandXOF(NewExpanderXOF(xof.SHAKE128, 128, buf[:l]), msg, 5)
	zzAssert(zzBytesEq(buf, before), "the bytes behind the tag (and the tag) are unchanged")
}
