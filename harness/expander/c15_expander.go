package expander

import (
	"crypto"
	"hash"

	"github.com/cloudflare/circl/xof"
)

// C15: expand_message_xof (RFC 9380 5.3.2) for every message and the output lengths around the
// 16-bit limit of the length field: for len_in_bytes <= 65535 the output is
// XOF(msg || I2OSP(len_in_bytes, 2) || DST_prime), with DST_prime = DST || I2OSP(len(DST), 1) and the
// over-long DST rule of 5.3.3; for len_in_bytes > 65535 the function aborts (the length field
// cannot represent it).  Keccak-p is an uninterpreted function (set "keccakuf"); sponge and glue real.

func zzExpandXOF(e *expanderXOF, in []byte, n uint) (out []byte, aborted bool) {
	defer func() {
		if recover() != nil {
			aborted = true
		}
	}()
	return e.Expand(in, n), false
}

func zzExpandXOFRef(id xof.ID, k uint, dst, msg []byte, n uint) []byte {
	if len(dst) > 255 {
		h := id.New()
		_, _ = h.Write([]byte("H2C-OVERSIZE-DST-"))
		_, _ = h.Write(dst)
		d := make([]byte, (2*k+7)/8)
		_, _ = h.Read(d)
		dst = d
	}
	h := id.New()
	_, _ = h.Write(msg)
	_, _ = h.Write([]byte{byte(n >> 8), byte(n)})
	_, _ = h.Write(dst)
	_, _ = h.Write([]byte{byte(len(dst))})
	out := make([]byte, n)
	_, _ = h.Read(out)
	return out
}

//zz: prop=C15 tier=quick backend=bv use=keccakuf timeout=300 budget=900
func ZZ_C15_expand_message_xof_length_field() {
	n := uint(zzPick("len_in_bytes", 0, 1, 32, 255, 256, 65535, 65536, 65537, 65568, 131072))
	dl := zzPick("dstlen", 3, 255, 256)
	if n > 300 {
		dl = 3 // long outputs with one DST length only (cost)
	}
	msg := make([]byte, 3)
	zzFill("msg", msg)
	dst := make([]byte, dl)
	zzFill("dst", dst)
	e := NewExpanderXOF(xof.SHAKE128, 128, dst)
	out, aborted := zzExpandXOF(e, msg, n)
	if n > 65535 {
		zzAssert(aborted, "len_in_bytes > 65535 aborts (RFC 9380 5.3.2 step 1)")
		return
	}
	zzAssert(!aborted, "len_in_bytes <= 65535 is served")
	zzAssert(zzBytesEq(out, zzExpandXOFRef(xof.SHAKE128, 128, dst, msg, n)), "expand_message_xof = RFC 9380 5.3.2")
}

// expand_message_xmd (RFC 9380 5.3.1) with the hash as an uninterpreted function of its input
// (set "xmdhash": b_in_bytes = 32, s_in_bytes = 64): every output length around one and two hash
// blocks and the 255-block limit, DST lengths 3, 255 (used verbatim) and 256 (hashed, 5.3.3).

type zzHash struct{ data []byte }

func (h *zzHash) Write(p []byte) (int, error) { h.data = append(h.data, p...); return len(p), nil }
func (h *zzHash) Sum(b []byte) []byte         { return append(b, zzUF("H", 32, h.data)...) }
func (h *zzHash) Reset()                      { h.data = nil }
func (h *zzHash) Size() int                   { return 32 }
func (h *zzHash) BlockSize() int              { return 64 }

//zz:replace (crypto.Hash).New set=xmdhash
func zzStubHashNew(h crypto.Hash) hash.Hash { return &zzHash{} }

//zz:replace (crypto.Hash).Size set=xmdhash
func zzStubHashSize(h crypto.Hash) int { return 32 }

func zzHashRef(parts ...[]byte) []byte {
	var d []byte
	for _, p := range parts {
		d = append(d, p...)
	}
	return zzUF("H", 32, d)
}

func zzExpandXMD(e *expanderMD, in []byte, n uint) (out []byte, aborted bool) {
	defer func() {
		if recover() != nil {
			aborted = true
		}
	}()
	return e.Expand(in, n), false
}

//zz: prop=C15 tier=quick backend=bv use=xmdhash timeout=300 budget=900
func ZZ_C15_expand_message_xmd_is_RFC9380() {
	n := uint(zzPick("len_in_bytes", 0, 1, 32, 33, 64, 65, 8160, 8161))
	dl := zzPick("dstlen", 3, 255, 256)
	if n > 100 {
		dl = 3
	}
	msg := make([]byte, 3)
	zzFill("msg", msg)
	dst := make([]byte, dl)
	zzFill("dst", dst)
	e := NewExpanderMD(crypto.SHA256, dst)
	out, aborted := zzExpandXMD(e, msg, n)
	ell := (n + 31) / 32
	if ell > 255 {
		zzAssert(aborted, "ell > 255 aborts")
		return
	}
	zzAssert(!aborted, "ell <= 255 is served")
	d := dst
	if len(dst) > 255 {
		d = zzHashRef([]byte("H2C-OVERSIZE-DST-"), dst)
	}
	dstPrime := append(append([]byte{}, d...), byte(len(d)))
	b0 := zzHashRef(make([]byte, 64), msg, []byte{byte(n >> 8), byte(n)}, []byte{0}, dstPrime)
	bi := zzHashRef(b0, []byte{1}, dstPrime)
	uniform := append([]byte{}, bi...)
	for i := uint(2); i <= ell; i++ {
		x := make([]byte, 32)
		for j := range x {
			x[j] = b0[j] ^ bi[j]
		}
		bi = zzHashRef(x, []byte{byte(i)}, dstPrime)
		uniform = append(uniform, bi...)
	}
	zzAssert(zzBytesEq(out, uniform[:n]), "expand_message_xmd = RFC 9380 5.3.1")
}
