package expander

import "github.com/cloudflare/circl/xof"

// C15: expand_message_xof (RFC 9380 5.3.2) for every message and the output lengths around the
// 16-bit limit of the length field: for len_in_bytes <= 65535 the output is
// XOF(msg || I2OSP(len_in_bytes, 2) || DST_prime), with DST_prime = DST || I2OSP(len(DST), 1) and the
// over-long DST rule of 5.3.3; for len_in_bytes > 65535 the function aborts (the length field
// cannot represent it).  Keccak-p is an uninterpreted function (set "keccakuf"); sponge and glue real.

func zzExpandXOF(e *expanderXOF, in []byte, n uint) (out []byte, aborted bool) {
	defer func() {
		if recover() != nil {
			aborted = true
		}
	}()
	return e.Expand(in, n), false
}

func zzExpandXOFRef(id xof.ID, k uint, dst, msg []byte, n uint) []byte {
	if len(dst) > 255 {
		h := id.New()
		_, _ = h.Write([]byte("H2C-OVERSIZE-DST-"))
		_, _ = h.Write(dst)
		d := make([]byte, (2*k+7)/8)
		_, _ = h.Read(d)
		dst = d
	}
	h := id.New()
	_, _ = h.Write(msg)
	_, _ = h.Write([]byte{byte(n >> 8), byte(n)})
	_, _ = h.Write(dst)
	_, _ = h.Write([]byte{byte(len(dst))})
	out := make([]byte, n)
	_, _ = h.Read(out)
	return out
}

//zz: prop=C15 tier=quick backend=bv use=keccakuf timeout=300 budget=900
func ZZ_C15_expand_message_xof_length_field() {
	n := uint(zzPick("len_in_bytes", 0, 1, 32, 255, 256, 65535, 65536, 65537, 65568, 131072))
	dl := zzPick("dstlen", 3, 255, 256)
	if n > 300 {
		dl = 3 // long outputs with one DST length only (cost)
	}
	msg := make([]byte, 3)
	zzFill("msg", msg)
	dst := make([]byte, dl)
	zzFill("dst", dst)
	e := NewExpanderXOF(xof.SHAKE128, 128, dst)
	out, aborted := zzExpandXOF(e, msg, n)
	if n > 65535 {
		zzAssert(aborted, "len_in_bytes > 65535 aborts (RFC 9380 5.3.2 step 1)")
		return
	}
	zzAssert(!aborted, "len_in_bytes <= 65535 is served")
	zzAssert(zzBytesEq(out, zzExpandXOFRef(xof.SHAKE128, 128, dst, msg, n)), "expand_message_xof = RFC 9380 5.3.2")
}
