package ascon

// C15: Ascon-128 / Ascon-128a / Ascon-80pq against the Ascon v1.2 specification.
//
//  (1) one round of the permutation (round constant 0x4b, the last one) equals p_L . p_S . p_C of the
//      specification - S-box given by its 5-bit lookup table, applied to each of the 64 columns -
//      for an arbitrary 320-bit state;
//  (2) p^12, p^8 and p^6 apply the rounds with the specification's constants f0 e1 d2 c3 b4 a5 96 87
//      78 69 5a 4b in order (each round expressed through the verified last round:
//      round_c(S) = round_4b(S xor (c xor 4b) on x2), so (1) carries over to every round);
//  (3) Seal equals Algorithm 1 of the specification, transcribed over byte strings, for symbolic
//      key / nonce / associated data / plaintext of all lengths 0..17 around the block sizes, with the
//      permutation as an uninterpreted function (set "asconuf"); Open inverts Seal, also in place
//      and when appending to a non-empty destination, and refuses when a tag bit differs.

var zzSbox = [32]uint8{0x4, 0xb, 0x1f, 0x14, 0x1a, 0x15, 0x9, 0x2, 0x1b, 0x5, 0x8, 0x12, 0x1d, 0x3, 0x6, 0x1c,
	0x1e, 0x13, 0x7, 0xe, 0x0, 0xd, 0x11, 0x18, 0x10, 0xc, 0x1, 0x19, 0x16, 0xa, 0xf, 0x17}

func zzRotr(x uint64, n uint) uint64 { return x>>n | x<<(64-n) }

// one round of the specification with round constant c
func zzRoundRef(s [5]uint64, c uint64) [5]uint64 {
	s[2] ^= c
	var t [5]uint64
	for col := uint(0); col < 64; col++ {
		in := uint8(0)
		for w := 0; w < 5; w++ {
			in = in<<1 | uint8(s[w]>>col)&1
		}
		// table lookup on a symbolic index, written out as a selection over the 32 entries
		out := uint8(0)
		for v := 0; v < 32; v++ {
			out |= uint8(zzIteU64(in == uint8(v), uint64(zzSbox[v]), 0))
		}
		for w := 0; w < 5; w++ {
			t[w] |= uint64(out>>(4-uint(w))&1) << col
		}
	}
	t[0] ^= zzRotr(t[0], 19) ^ zzRotr(t[0], 28)
	t[1] ^= zzRotr(t[1], 61) ^ zzRotr(t[1], 39)
	t[2] ^= zzRotr(t[2], 1) ^ zzRotr(t[2], 6)
	t[3] ^= zzRotr(t[3], 10) ^ zzRotr(t[3], 17)
	t[4] ^= zzRotr(t[4], 7) ^ zzRotr(t[4], 41)
	return t
}

// the same round with the S-box given by the algebraic normal form of the specification (section
// 2.6.2: y0 = x4x1+x3+x2x1+x2+x1x0+x1+x0, y1 = x4+x3x2+x3x1+x3+x2x1+x2+x1+x0, y2 = x4x3+x4+x2+x1+1,
// y3 = x4x0+x4+x3x0+x3+x2+x1+x0, y4 = x4x1+x4+x3+x1x0+x1), evaluated on whole words
func zzRoundRefANF(s [5]uint64, c uint64) [5]uint64 {
	x0, x1, x2, x3, x4 := s[0], s[1], s[2]^c, s[3], s[4]
	var t [5]uint64
	t[0] = x4&x1 ^ x3 ^ x2&x1 ^ x2 ^ x1&x0 ^ x1 ^ x0
	t[1] = x4 ^ x3&x2 ^ x3&x1 ^ x3 ^ x2&x1 ^ x2 ^ x1 ^ x0
	t[2] = x4&x3 ^ x4 ^ x2 ^ x1 ^ ^uint64(0)
	t[3] = x4&x0 ^ x4 ^ x3&x0 ^ x3 ^ x2 ^ x1 ^ x0
	t[4] = x4&x1 ^ x4 ^ x3 ^ x1&x0 ^ x1
	t[0] ^= zzRotr(t[0], 19) ^ zzRotr(t[0], 28)
	t[1] ^= zzRotr(t[1], 61) ^ zzRotr(t[1], 39)
	t[2] ^= zzRotr(t[2], 1) ^ zzRotr(t[2], 6)
	t[3] ^= zzRotr(t[3], 10) ^ zzRotr(t[3], 17)
	t[4] ^= zzRotr(t[4], 7) ^ zzRotr(t[4], 41)
	return t
}

//zz: prop=C15 tier=quick backend=bv timeout=300
func ZZ_C15_ascon_round_equals_specification_ANF() {
	var s [5]uint64
	zzFill("state", &s)
	want := zzRoundRefANF(s, 0x4b)
	perm(1, &s)
	zzAssert(s == want, "one round (constant 4b) = p_L . p_S . p_C with the S-box in algebraic normal form")
}

//zz: prop=C15 tier=thorough backend=bv timeout=900
func ZZ_C15_ascon_round_equals_specification() {
	var s [5]uint64
	zzFill("state", &s)
	want := zzRoundRef(s, 0x4b)
	perm(1, &s)
	zzAssert(s == want, "one round (constant 4b) = p_L . p_S . p_C with the specification's S-box table")
}

var zzRoundConst = [12]uint64{0xf0, 0xe1, 0xd2, 0xc3, 0xb4, 0xa5, 0x96, 0x87, 0x78, 0x69, 0x5a, 0x4b}

//zz: prop=C15 tier=quick backend=bv timeout=300
func ZZ_C15_ascon_round_constants_in_order() {
	n := zzPick("rounds", 12, 8, 6)
	var s, r [5]uint64
	zzFill("state", &s)
	r = s
	for i := 12 - n; i < 12; i++ {
		r[2] ^= zzRoundConst[i] ^ 0x4b
		perm(1, &r) // the verified last round: adds 4b itself
	}
	perm(n, &s)
	zzAssert(s == r, "p^n applies the specification's round constants in order")
}

// ---- mode level: Algorithm 1 of the specification over byte strings, permutation uninterpreted

//zz:replace cipher/ascon.perm set=asconuf
func zzStubPerm(n int, s *[5]uint64) {
	if !zzSymbolic() {
		perm(n, s)
		return
	}
	name := "ascon.p6"
	if n == 8 {
		name = "ascon.p8"
	} else if n == 12 {
		name = "ascon.p12"
	}
	copy(s[:], zzUF64(name, 5, s[:]))
}

func zzStateBytes(s [5]uint64) []byte {
	out := make([]byte, 40)
	for i, w := range s {
		for j := 0; j < 8; j++ {
			out[8*i+j] = byte(w >> (56 - 8*uint(j)))
		}
	}
	return out
}

func zzPermBytes(n int, st []byte) {
	var s [5]uint64
	for i := range s {
		for j := 0; j < 8; j++ {
			s[i] = s[i]<<8 | uint64(st[8*i+j])
		}
	}
	zzStubPerm(n, &s)
	copy(st, zzStateBytes(s))
}

// Ascon v1.2 Algorithm 1 (authenticated encryption); k, r in bytes, a, b rounds
func zzAsconRef(k, r, a, b int, key, nonce, ad, pt []byte) (ct, tag []byte) {
	st := make([]byte, 40)
	st[0], st[1], st[2], st[3] = byte(8*k), byte(8*r), byte(a), byte(b)
	copy(st[40-16-k:], key)
	copy(st[24:], nonce)
	zzPermBytes(a, st)
	for i := range key {
		st[40-k+i] ^= key[i]
	}
	if len(ad) > 0 {
		padded := append(append([]byte{}, ad...), 0x80)
		for len(padded)%r != 0 {
			padded = append(padded, 0)
		}
		for off := 0; off < len(padded); off += r {
			for i := 0; i < r; i++ {
				st[i] ^= padded[off+i]
			}
			zzPermBytes(b, st)
		}
	}
	st[39] ^= 1
	padded := append(append([]byte{}, pt...), 0x80)
	for len(padded)%r != 0 {
		padded = append(padded, 0)
	}
	for off := 0; off < len(padded); off += r {
		for i := 0; i < r; i++ {
			st[i] ^= padded[off+i]
		}
		last := off+r == len(padded)
		if last {
			ct = append(ct, st[:len(pt)-off]...)
		} else {
			ct = append(ct, st[:r]...)
			zzPermBytes(b, st)
		}
	}
	for i := range key {
		st[r+i] ^= key[i]
	}
	zzPermBytes(a, st)
	tag = make([]byte, 16)
	for i := range tag {
		tag[i] = st[24+i] ^ key[k-16+i]
	}
	return ct, tag
}

//zz: prop=C15 tier=quick backend=bv use=asconuf timeout=600 budget=1200
func ZZ_C15_ascon_Seal_equals_specification_and_Open_inverts() {
	mode := Mode(zzPick("mode", 1, 2, -1))
	k, r, bRounds := 16, 8, 6
	if mode == Ascon128a {
		r, bRounds = 16, 8
	} else if mode == Ascon80pq {
		k = 20
	}
	key, nonce := make([]byte, k), make([]byte, 16)
	ad := make([]byte, zzPick("adlen", 0, 1, 8, 17))
	pt := make([]byte, zzPick("ptlen", 0, 1, 7, 8, 9, 16, 17))
	zzFill("key", key)
	zzFill("nonce", nonce)
	zzFill("ad", ad)
	zzFill("pt", pt)
	c, err := New(key, mode)
	zzAssert(err == nil, "key of the mode's size accepted")
	prefix := []byte{0xAA, 0xBB}
	out := c.Seal(append([]byte{}, prefix...), nonce, pt, ad)
	ct, tag := zzAsconRef(k, r, 12, bRounds, key, nonce, ad, pt)
	zzAssert(zzBytesEq(out[:2], prefix), "Seal appends to dst")
	zzAssert(zzBytesEq(out[2:], append(append([]byte{}, ct...), tag...)), "Seal = specification (ciphertext || tag)")
	// decryption, appending to a non-empty destination
	back, err := c.Open([]byte{0xCC}, nonce, out[2:], ad)
	zzAssert(err == nil && zzBytesEq(back[1:], pt) && back[0] == 0xCC, "Open inverts Seal and appends to dst")
	// in place
	buf := append([]byte{}, out[2:]...)
	back2, err := c.Open(buf[:0], nonce, buf, ad)
	zzAssert(err == nil && zzBytesEq(back2, pt), "Open in place inverts Seal")
	// a flipped tag bit is refused
	bad := append([]byte{}, out[2:]...)
	bad[len(bad)-1-zzPick("tagbyte", 0, 15)] ^= 1 << uint(zzPick("bit", 0, 7))
	_, err = c.Open(nil, nonce, bad, ad)
	zzAssert(err != nil, "a ciphertext with a flipped tag bit is refused")
}
