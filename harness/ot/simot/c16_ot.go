package simot

import "golang.org/x/crypto/sha3"

// C16 (oblivious transfer): "the receiver obtains exactly the chosen message and cannot decrypt the
// other one with the key it derives", for both choice bits, every sender / receiver randomness a, b
// (non-zero, as RandomNonZeroScalar promises) and symbolic messages, over the abstract group
// (exponents = reals).  Models, all stated in the evidence: SHAKE128 is an uninterpreted function of
// the bytes written, collision-free on the queries made; element encoding is injective; AES-GCM is an
// ideal authenticated cipher - a ciphertext opens under exactly the key it was sealed with and then
// returns the sealed plaintext (the box carries key and plaintext).

type zzShakeQ struct{ in, out []byte }

var zzShakeQs []zzShakeQ

type zzShake struct{ data []byte }

func (h *zzShake) Write(p []byte) (int, error) { h.data = append(h.data, p...); return len(p), nil }
func (h *zzShake) Read(p []byte) (int, error) {
	out := zzUF("shake128", len(p), h.data)
	for _, q := range zzShakeQs {
		if len(q.in) == len(h.data) && len(q.out) == len(out) {
			zzAssumeNote(zzImplies(zzBytesEq(out, q.out), zzBytesEq(h.data, q.in)), "random oracle: SHAKE128 has no collisions among the queries made")
		} else if len(q.out) == len(out) {
			zzAssumeNote(zzNot(zzBytesEq(out, q.out)), "random oracle: SHAKE128 has no collisions among the queries made")
		}
	}
	zzShakeQs = append(zzShakeQs, zzShakeQ{append([]byte{}, h.data...), append([]byte{}, out...)})
	copy(p, out)
	return len(p), nil
}
func (h *zzShake) Sum(b []byte) []byte    { panic("ZZ-MODEL-ONLY") }
func (h *zzShake) Reset()                 { h.data = nil }
func (h *zzShake) Size() int              { return 32 }
func (h *zzShake) BlockSize() int         { return 168 }
func (h *zzShake) Clone() sha3.ShakeHash  { return &zzShake{append([]byte{}, h.data...)} }

//zz:replace golang.org/x/crypto/sha3.NewShake128 set=otmodel
func zzStubNewShake128() sha3.ShakeHash { return &zzShake{} }

//zz:replace ot/simot.aesEncGCM set=otmodel
func zzStubEnc(key, plaintext []byte) []byte {
	return append(append([]byte{}, key...), plaintext...)
}

type zzErr struct{}

func (zzErr) Error() string { return "zz: authentication failed" }

//zz:replace ot/simot.aesDecGCM set=otmodel
func zzStubDec(key, ciphertext []byte) ([]byte, error) {
	if len(ciphertext) < len(key) || !zzBytesEq(ciphertext[:len(key)], key) {
		return nil, zzErr{}
	}
	return append([]byte{}, ciphertext[len(key):]...), nil
}

//zz: prop=C16 tier=quick backend=bv use=otmodel timeout=600
func ZZ_C16_simot_receiver_gets_exactly_the_chosen_message() {
	if !zzSymbolic() {
		zzModelOnly()
	}
	zzROM = true
	zzH2SQueries, zzEncQueries, zzShakeQs = nil, nil, nil
	G := zzGrp{}
	n := zzPick("msglen", 0, 1, zzT(2, 16))
	m0, m1 := make([]byte, n), make([]byte, n)
	zzFill("m0", m0)
	zzFill("m1", m1)
	choice := zzPick("choice", 0, 1)
	var s Sender
	var r Receiver
	A := s.InitSender(G, m0, m1, 0)
	B := r.Round1Receiver(G, choice, 0, A)
	e0, e1 := s.Round2Sender(B)
	zzAssert(len(e0) == len(e1), "equal-length messages give equal-length ciphertexts")
	err := r.Round3Receiver(e0, e1, choice)
	zzAssert(err == nil, "the receiver opens the chosen ciphertext")
	want := m0
	other := e1
	if choice == 1 {
		want, other = m1, e0
	}
	zzAssert(zzBytesEq(r.Returnmc(), want), "the receiver obtains exactly the chosen message")
	_, errOther := aesDecGCM(r.kR, other)
	zzAssert(errOther != nil, "the key the receiver derives does not open the other ciphertext")
}
