package simot

// Abstract field / abstract group model (DESIGN §2.5): a scalar is a Real-sorted term (a field of
// characteristic 0, decided by z3's nlsat), Inv(x) is a fresh y with x*y = 1, an element is a*G
// represented by its exponent a.  circl code that is generic in group.Group runs over it; a rational
// identity that holds over the reals with the same non-zero conditions holds in every scalar field
// in which those denominators are non-zero.

import (
	"io"
	"math/big"

	"github.com/cloudflare/circl/group"
)

type zzGrp struct{}
type zzScl struct{ v zzR }
type zzElt struct{ e zzR }

func (zzGrp) String() string                                 { return "abstract" }
func (zzGrp) Params() *group.Params                          { return &group.Params{ElementLength: 32, CompressedElementLength: 32, ScalarLength: 32} }
func (zzGrp) NewElement() group.Element                      { return &zzElt{} }
func (zzGrp) NewScalar() group.Scalar                        { return &zzScl{} }
func (zzGrp) Identity() group.Element                        { return &zzElt{} }
func (zzGrp) Generator() group.Element                       { return &zzElt{e: zzRConst(1)} }
func (zzGrp) RandomElement(rnd io.Reader) group.Element      { return &zzElt{e: zzRFresh()} }
func (zzGrp) RandomScalar(rnd io.Reader) group.Scalar        { return &zzScl{v: zzRFresh()} }
func (zzGrp) RandomNonZeroScalar(io.Reader) group.Scalar     { s := &zzScl{v: zzRFresh()}; zzAssume(zzNot(zzREq(s.v, zzRConst(0)))); return s }
func (zzGrp) HashToElement(msg, dst []byte) group.Element    { return &zzElt{e: zzRFresh()} }
func (zzGrp) HashToElementNonUniform(m, d []byte) group.Element { return &zzElt{e: zzRFresh()} }
// random-oracle assumptions, switched on by the soundness harnesses (zzROM): hash-to-scalar outputs
// are non-zero and collision-free among the queried points, element encoding is injective
var zzROM bool

type zzH2SQuery struct {
	msg []byte
	out zzR
}

var zzH2SQueries []zzH2SQuery

func (zzGrp) HashToScalar(msg, dst []byte) group.Scalar {
	out := zzRFromBytes("hashToScalar", msg, dst)
	if zzROM {
		zzAssumeNote(zzNot(zzREq(out, zzRConst(0))), "random oracle: hash-to-scalar outputs are non-zero")
		for _, q := range zzH2SQueries {
			if len(q.msg) == len(msg) {
				zzAssumeNote(zzImplies(zzREq(out, q.out), zzBytesEq(msg, q.msg)), "random oracle: no collisions among the hash-to-scalar queries made")
			} else {
				zzAssumeNote(zzNot(zzREq(out, q.out)), "random oracle: no collisions among the hash-to-scalar queries made")
			}
		}
		zzH2SQueries = append(zzH2SQueries, zzH2SQuery{append([]byte{}, msg...), out})
	}
	return &zzScl{v: out}
}

func (s *zzScl) Group() group.Group                 { return zzGrp{} }
func (s *zzScl) Set(x group.Scalar) group.Scalar    { s.v = x.(*zzScl).v; return s }
func (s *zzScl) Copy() group.Scalar                 { return &zzScl{v: s.v} }
func (s *zzScl) IsZero() bool                       { return zzREq(s.v, zzRConst(0)) }
func (s *zzScl) IsEqual(x group.Scalar) bool        { return zzREq(s.v, x.(*zzScl).v) }
func (s *zzScl) SetUint64(x uint64) group.Scalar    { s.v = zzRConst(int(x)); return s }
func (s *zzScl) SetBigInt(b *big.Int) group.Scalar  { s.v = zzRConst(int(b.Int64())); return s }
func (s *zzScl) CMov(b int, x group.Scalar) group.Scalar {
	if b == 1 {
		s.v = x.(*zzScl).v
	}
	return s
}
func (s *zzScl) CSelect(b int, x, y group.Scalar) group.Scalar {
	if b == 1 {
		s.v = x.(*zzScl).v
	} else {
		s.v = y.(*zzScl).v
	}
	return s
}
func (s *zzScl) Add(x, y group.Scalar) group.Scalar { s.v = zzRAdd(x.(*zzScl).v, y.(*zzScl).v); return s }
func (s *zzScl) Sub(x, y group.Scalar) group.Scalar { s.v = zzRSub(x.(*zzScl).v, y.(*zzScl).v); return s }
func (s *zzScl) Mul(x, y group.Scalar) group.Scalar { s.v = zzRMul(x.(*zzScl).v, y.(*zzScl).v); return s }
func (s *zzScl) Neg(x group.Scalar) group.Scalar    { s.v = zzRNeg(x.(*zzScl).v); return s }
func (s *zzScl) Inv(x group.Scalar) group.Scalar    { s.v = zzRInv(x.(*zzScl).v); return s }
func (s *zzScl) MarshalBinary() ([]byte, error)     { panic("ZZ-MODEL-ONLY: abstract scalar has no encoding") }
func (s *zzScl) UnmarshalBinary([]byte) error       { panic("ZZ-MODEL-ONLY: abstract scalar has no encoding") }

func (e *zzElt) Group() group.Group                  { return zzGrp{} }
func (e *zzElt) Set(x group.Element) group.Element   { e.e = x.(*zzElt).e; return e }
func (e *zzElt) Copy() group.Element                 { return &zzElt{e: e.e} }
func (e *zzElt) IsIdentity() bool                    { return zzREq(e.e, zzRConst(0)) }
func (e *zzElt) IsEqual(x group.Element) bool        { return zzREq(e.e, x.(*zzElt).e) }
func (e *zzElt) CMov(b int, x group.Element) group.Element {
	if b == 1 {
		e.e = x.(*zzElt).e
	}
	return e
}
func (e *zzElt) CSelect(b int, x, y group.Element) group.Element {
	if b == 1 {
		e.e = x.(*zzElt).e
	} else {
		e.e = y.(*zzElt).e
	}
	return e
}
func (e *zzElt) Add(x, y group.Element) group.Element { e.e = zzRAdd(x.(*zzElt).e, y.(*zzElt).e); return e }
func (e *zzElt) Dbl(x group.Element) group.Element    { e.e = zzRAdd(x.(*zzElt).e, x.(*zzElt).e); return e }
func (e *zzElt) Neg(x group.Element) group.Element    { e.e = zzRNeg(x.(*zzElt).e); return e }
func (e *zzElt) Mul(x group.Element, s group.Scalar) group.Element {
	e.e = zzRMul(x.(*zzElt).e, s.(*zzScl).v)
	return e
}
func (e *zzElt) MulGen(s group.Scalar) group.Element  { e.e = s.(*zzScl).v; return e }
func (e *zzElt) MarshalBinary() ([]byte, error)       { return e.MarshalBinaryCompress() }
func (e *zzElt) UnmarshalBinary([]byte) error         { panic("ZZ-MODEL-ONLY: abstract element has no encoding") }
type zzEncQuery struct {
	e   zzR
	enc []byte
}

var zzEncQueries []zzEncQuery

func (e *zzElt) MarshalBinaryCompress() ([]byte, error) {
	enc := zzRToBytes("encodeElement", 32, e.e)
	if zzROM {
		for _, q := range zzEncQueries {
			zzAssumeNote(zzImplies(zzBytesEq(enc, q.enc), zzREq(e.e, q.e)), "element encoding is injective")
		}
		zzEncQueries = append(zzEncQueries, zzEncQuery{e.e, enc})
	}
	return enc, nil
}

func zzSclVar(name string) *zzScl { return &zzScl{v: zzRVar(name)} }
