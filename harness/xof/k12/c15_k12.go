package k12

import "github.com/cloudflare/circl/internal/sha3"

// C15: KangarooTwelve (single lane): the output stream is independent of how the input is split
// across writes and of cloning the state midway, for inputs crossing the 8192-byte chunk boundary.
// The Keccak permutation is an uninterpreted function (set keccakuf); everything above it (leaf /
// stalk bookkeeping, right_encode, chaining values, sponge) is the real code on symbolic bytes.

func zzK12Out(s *State) []byte {
	out := make([]byte, 33)
	_, _ = s.Read(out)
	return out
}

//zz: prop=C15 tier=quick backend=bv use=keccakuf timeout=300 budget=900
func ZZ_C15_k12_clone_and_split_independence() {
	n := zzPick("prefixlen", 0, 1, 8191, 8192, 8193)
	m := zzPick("suffixlen", 0, 1, 170)
	msg := make([]byte, n+m)
	zzFill("msg", msg)
	ctx := []byte{}

	one := newDraft10(ctx, 1)
	_, _ = one.Write(msg)
	want := zzK12Out(&one)

	// split across two writes
	two := newDraft10(ctx, 1)
	_, _ = two.Write(msg[:n])
	_, _ = two.Write(msg[n:])
	zzAssert(zzBytesEq(zzK12Out(&two), want), "output independent of the split across writes")

	// clone midway, continue on the clone
	orig := newDraft10(ctx, 1)
	_, _ = orig.Write(msg[:n])
	cl := orig.Clone()
	_, _ = cl.Write(msg[n:])
	zzAssert(zzBytesEq(zzK12Out(&cl), want), "clone taken midway continues like the original")
	// and the original is not disturbed by the clone's activity
	_, _ = orig.Write(msg[n:])
	zzAssert(zzBytesEq(zzK12Out(&orig), want), "original unaffected by its clone")
}

// ---- reference: KangarooTwelve as specified (draft-irtf-cfrg-kangarootwelve-10 / RFC 9861 §3),
// transcribed literally over TurboSHAKE128 (12-round Keccak-p[1600], rate 168), sharing only the
// permutation (an uninterpreted function in the symbolic run, the real one in the native replay).

func zzTurboShake128(msg []byte, d byte, outLen int) []byte {
	const rate = 168
	var a [25]uint64
	buf := append(append([]byte{}, msg...), d)
	for len(buf)%rate != 0 {
		buf = append(buf, 0)
	}
	buf[len(buf)-1] ^= 0x80
	for off := 0; off < len(buf); off += rate {
		for i := 0; i < rate/8; i++ {
			var w uint64
			for j := 0; j < 8; j++ {
				w |= uint64(buf[off+8*i+j]) << (8 * uint(j))
			}
			a[i] ^= w
		}
		sha3.KeccakF1600(&a, true)
	}
	out := []byte{}
	for {
		for i := 0; i < rate/8; i++ {
			for j := 0; j < 8; j++ {
				if len(out) == outLen {
					return out
				}
				out = append(out, byte(a[i]>>(8*uint(j))))
			}
		}
		sha3.KeccakF1600(&a, true)
	}
}

func zzLengthEncode(x int) []byte {
	var be []byte
	for v := x; v > 0; v >>= 8 {
		be = append([]byte{byte(v)}, be...)
	}
	return append(be, byte(len(be)))
}

func zzK12Ref(msg, c []byte, outLen int) []byte {
	const chunk = 8192
	s := append(append(append([]byte{}, msg...), c...), zzLengthEncode(len(c))...)
	if len(s) <= chunk {
		return zzTurboShake128(s, 0x07, outLen)
	}
	final := append(append([]byte{}, s[:chunk]...), 0x03, 0, 0, 0, 0, 0, 0, 0)
	n := 0
	for off := chunk; off < len(s); off += chunk {
		end := off + chunk
		if end > len(s) {
			end = len(s)
		}
		final = append(final, zzTurboShake128(s[off:end], 0x0B, 32)...)
		n++
	}
	final = append(final, zzLengthEncode(n)...)
	final = append(final, 0xFF, 0xFF)
	return zzTurboShake128(final, 0x06, outLen)
}

// K12(M, C) equals the specification for every message whose padded length |M|+|C|+|enc(|C|)|
// is at, just below and just above the 8192-byte chunk size (single tree node vs. final node with
// one leaf), and for short messages around the sponge rate
//
//zz: prop=C15 tier=quick backend=bv use=keccakuf timeout=300 budget=900
func ZZ_C15_k12_equals_specification_at_chunk_boundary() {
	lens := []int{0, 1, 166, 167, 168, 8190, 8191, 8192, 8193}
	if zzThorough() {
		lens = append(lens, 2, 169, 335, 336, 337, 8189, 8194, 8360, 16383, 16384, 16385)
	}
	n := zzPick("msglen", lens...)
	msg := make([]byte, n)
	zzFill("msg", msg)
	s := newDraft10([]byte{}, 1)
	_, _ = s.Write(msg)
	zzAssert(zzBytesEq(zzK12Out(&s), zzK12Ref(msg, []byte{}, 33)), "K12(M, empty) = specification")
}

//zz: prop=C15 tier=quick backend=bv use=keccakuf timeout=300 budget=900
func ZZ_C15_k12_equals_specification_with_customisation() {
	n := zzPick("msglen", 0, 8186, 8187, 8188)
	msg := make([]byte, n)
	zzFill("msg", msg)
	c := make([]byte, 3)
	zzFill("c", c)
	s := newDraft10(c, 1)
	_, _ = s.Write(msg)
	zzAssert(zzBytesEq(zzK12Out(&s), zzK12Ref(msg, c, 33)), "K12(M, C) = specification")
}

// multi-lane absorption (2 and 4 leaves at a time, as selected on SIMD machines; the lane
// permutations are the scalar fallback over the same uninterpreted Keccak-p): K12 equals the
// specification for long single writes covering one, two and three groups of lanes, and for the same
// input split across two writes
//
//zz: prop=C15 also=C14 tier=quick backend=bv use=keccakuf,x4init timeout=600 budget=1500
func ZZ_C15_k12_lanes_equal_specification() {
	lanes := byte(zzPick("lanes", 2, 4))
	n := zzPick("msglen", 8192*3+5, 8192*5, 8192*9-1, 8192*9, 8192*10+17)
	msg := make([]byte, n)
	zzFill("msg", msg)
	want := zzK12Ref(msg, []byte{}, 33)
	s := newDraft10([]byte{}, lanes)
	_, _ = s.Write(msg)
	zzAssert(zzBytesEq(zzK12Out(&s), want), "K12 with 2/4 lanes, one write = specification")
	t := newDraft10([]byte{}, lanes)
	_, _ = t.Write(msg[:8192*2+100])
	_, _ = t.Write(msg[8192*2+100:])
	zzAssert(zzBytesEq(zzK12Out(&t), want), "K12 with 2/4 lanes, two writes = specification")
}

// Reset midway: a state that has absorbed an earlier message (short, or past the first chunk with
// a partially filled leaf; squeezed or not) and is then Reset behaves like a fresh state on the
// next message, for next messages on both sides of the chunk boundary (lanes = 1).
//
//zz: prop=C15 tier=quick backend=bv use=keccakuf timeout=300 budget=900
func ZZ_C15_k12_reset_midway_gives_a_fresh_state() {
	first := zzPick("firstlen", 1, 8292)
	lens := []int{1, 8192, 8293}
	if zzThorough() {
		lens = append(lens, 0, 8191, 8193, 16385)
	}
	n := zzPick("msglen", lens...)
	old := make([]byte, first)
	zzFill("old", old)
	msg := make([]byte, n)
	zzFill("msg", msg)
	s := newDraft10([]byte{}, 1)
	_, _ = s.Write(old)
	if zzPick("read_before_reset", 0, 1) == 1 {
		_ = zzK12Out(&s)
	}
	s.Reset()
	_, _ = s.Write(msg)
	fresh := newDraft10([]byte{}, 1)
	_, _ = fresh.Write(msg)
	zzAssert(zzBytesEq(zzK12Out(&s), zzK12Out(&fresh)), "after Reset the state hashes like a fresh one")
}
