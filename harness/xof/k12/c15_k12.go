package k12

// C15: KangarooTwelve (single lane): the output stream is independent of how the input is split
// across writes and of cloning the state midway, for inputs crossing the 8192-byte chunk boundary.
// The Keccak permutation is an uninterpreted function (set keccakuf); everything above it (leaf /
// stalk bookkeeping, right_encode, chaining values, sponge) is the real code on symbolic bytes.

func zzK12Out(s *State) []byte {
	out := make([]byte, 33)
	_, _ = s.Read(out)
	return out
}

//zz: prop=C15 tier=quick backend=bv use=keccakuf timeout=300 budget=900
func ZZ_C15_k12_clone_and_split_independence() {
	n := zzPick("prefixlen", 0, 1, 8191, 8192, 8193)
	m := zzPick("suffixlen", 0, 1, 170)
	msg := make([]byte, n+m)
	zzFill("msg", msg)
	ctx := []byte{}

	one := newDraft10(ctx, 1)
	_, _ = one.Write(msg)
	want := zzK12Out(&one)

	// split across two writes
	two := newDraft10(ctx, 1)
	_, _ = two.Write(msg[:n])
	_, _ = two.Write(msg[n:])
	zzAssert(zzBytesEq(zzK12Out(&two), want), "output independent of the split across writes")

	// clone midway, continue on the clone
	orig := newDraft10(ctx, 1)
	_, _ = orig.Write(msg[:n])
	cl := orig.Clone()
	_, _ = cl.Write(msg[n:])
	zzAssert(zzBytesEq(zzK12Out(&cl), want), "clone taken midway continues like the original")
	// and the original is not disturbed by the clone's activity
	_, _ = orig.Write(msg[n:])
	zzAssert(zzBytesEq(zzK12Out(&orig), want), "original unaffected by its clone")
}
