package qndleq

import "math/big"

// C16: a DLEQ proof in the subgroup of squares mod N assembled from degenerate values (zero
// response, zero challenge, prover-chosen security parameter) must not verify for a false
// statement.  Statement (g, gx, h, hx) = (4, 16, 9, 9) mod 35 is false (log_4 16 = 2, log_9 9 = 1).
// The proof's SecParam field is chosen by the prover; the verifier derives the number of challenge
// bytes it compares from it.
//
//zz: prop=C16 tier=quick backend=bv use=keccakuf timeout=120
func ZZ_C16_qndleq_degenerate_proof_rejected() {
	N := big.NewInt(35)
	g, gx, h, hx := big.NewInt(4), big.NewInt(16), big.NewInt(9), big.NewInt(9)
	sec := uint(zzPick("SecParam", 0, 8, 128))
	p := Proof{Z: big.NewInt(0), C: big.NewInt(0), SecParam: sec}
	ok := p.Verify(g, gx, h, hx, N)
	zzAssert(!ok || sec >= 128, "a proof with zero challenge and zero response is accepted only if at least 128 challenge bits were compared")
}

// both inversions of the verifier are checked: a statement with a non-invertible element (here 0)
// is refused before any challenge is compared, whatever the hash function returns
//
//zz: prop=C16 tier=quick backend=bv use=keccakuf timeout=120
func ZZ_C16_qndleq_noninvertible_statement_rejected() {
	N := big.NewInt(35)
	g, gx, h, hx := big.NewInt(4), big.NewInt(16), big.NewInt(9), big.NewInt(9)
	if zzPick("which", 0, 1) == 0 {
		gx = big.NewInt(0)
	} else {
		hx = big.NewInt(0)
	}
	p := Proof{Z: big.NewInt(7), C: big.NewInt(5), SecParam: 128}
	zzAssert(!p.Verify(g, gx, h, hx, N), "a statement with a non-invertible element never verifies")
}
