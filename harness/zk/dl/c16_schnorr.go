package dl

import "github.com/cloudflare/circl/group"

// C16: Schnorr NIZK proofs of knowledge (RFC 8235) over the abstract group (exponents = reals,
// hash-to-scalar and element encoding uninterpreted): an honest proof verifies for every witness k,
// base G, commitment randomness v and pair of context strings; under the random-oracle assumptions
// of zzROM (hash-to-scalar non-zero and collision-free on the queried transcripts, injective element
// encoding) the proof is refused when the base, the statement element, the commitment V, the
// response r, the user identifier or the other-info string is altered.

func zzCtx(name string, n int) []byte {
	b := make([]byte, n)
	zzFill(name, b)
	return b
}

//zz: prop=C16 also=C11 tier=quick backend=bv timeout=300
func ZZ_C16_schnorr_complete() {
	G := zzGrp{}
	k := zzSclVar("k")
	g := &zzElt{e: zzRVar("g")}
	kG := G.NewElement().Mul(g, k)
	uid := zzCtx("uid", zzLen("nuid", 0, zzT(2, 5)))
	oi := zzCtx("oi", zzLen("noi", 0, zzT(2, 5)))
	k0, g0, kG0 := k.Copy(), g.Copy(), kG.Copy()
	p := Prove(G, g, kG, k, uid, oi, nil)
	zzAssert(Verify(G, g, kG, p, uid, oi), "honest Schnorr proof verifies")
	zzAssert(zzAnd(k.IsEqual(k0), g.IsEqual(g0), kG.IsEqual(kG0)), "proving and verifying leave the witness, the base and the statement element unchanged")
	p2 := Prove(G, g, kG, k, uid, oi, nil)
	zzAssert(Verify(G, g, kG, p2, uid, oi), "a second honest proof from the same key object verifies")
}

//zz: prop=C16 tier=quick backend=bv timeout=600
func ZZ_C16_schnorr_altered_component_rejected() {
	zzROM = true
	zzH2SQueries, zzEncQueries = nil, nil
	G := zzGrp{}
	k := zzSclVar("k")
	g := &zzElt{e: zzRVar("g")}
	zzAssumeNote(zzNot(g.IsIdentity()), "the base G is a generator (non-identity)")
	zzAssumeNote(zzNot(k.IsZero()), "the witness k is non-zero (for k = 0 the statement element is the identity and the challenge drops out of the verification equation)")
	kG := G.NewElement().Mul(g, k)
	n := zzLen("nctx", 1, zzT(2, 4))
	uid, oi := zzCtx("uid", n), zzCtx("oi", n)
	p := Prove(G, g, kG, k, uid, oi, nil)
	delta := zzRVar("delta")
	zzAssumeNote(zzNot(zzREq(delta, zzRConst(0))), "the alteration changes the value")
	bump := func(e group.Element) group.Element { return &zzElt{e: zzRAdd(e.(*zzElt).e, delta)} }
	g2, kG2 := group.Element(g), kG
	p2 := Proof{V: p.V, R: p.R}
	uid2, oi2 := uid, oi
	switch zzPick("altered", 0, 1, 2, 3, 4, 5, 6, 7) {
	case 0:
		g2 = bump(g)
		zzAssumeNote(zzNot(p.R.IsZero()), "the response r = v - c*k is non-zero (fails with probability 1/q over the prover's randomness; with r = 0 the base does not enter the verification equation except through the challenge)")
	case 1:
		kG2 = bump(kG)
	case 2:
		p2.V = bump(p.V)
	case 3:
		p2.R = &zzScl{v: zzRAdd(p.R.(*zzScl).v, delta)}
	case 4: // user identifier of the same length, some byte different
		uid2 = zzCtx("uid2", n)
		zzAssume(zzNot(zzBytesEq(uid, uid2)))
	case 5: // other-info of the same length, some byte different
		oi2 = zzCtx("oi2", n)
		zzAssume(zzNot(zzBytesEq(oi, oi2)))
	case 6: // a byte moved from the end of the user identifier to the front of other-info
		uid2 = uid[:n-1]
		oi2 = append([]byte{uid[n-1]}, oi...)
	case 7: // user identifier extended
		uid2 = append(append([]byte{}, uid...), zzU8("extra"))
	}
	ok := Verify(G, g2, kG2, p2, uid2, oi2)
	// Fiat-Shamir in the (V, r) form: the verifier's challenge c' is the hash of the transcript it
	// rebuilds.  If that transcript is the one the prover hashed, c' = c (same function, same input) and
	// the alteration must be caught by the verification equation.  If it is a new transcript, c' is an
	// independent random-oracle output and hits the single value satisfying V' = r'G' + c'A' with
	// probability 1/q only: that guessing event is assumed away, stated over the *true* equation, not
	// over the code's verdict.
	q0, q1 := zzH2SQueries[0], zzH2SQueries[len(zzH2SQueries)-1]
	same := len(q0.msg) == len(q1.msg) && zzBytesEq(q0.msg, q1.msg)
	hit := zzREq(zzRMul(q1.out, kG2.(*zzElt).e), zzRSub(p2.V.(*zzElt).e, zzRMul(p2.R.(*zzScl).v, g2.(*zzElt).e)))
	zzAssert(len(zzH2SQueries) == 2, "prover and verifier each derive one challenge")
	zzAssumeNote(zzOr(same, zzNot(hit)), "random oracle: the challenge of a transcript not queried before does not hit the one value that satisfies the verification equation (probability 1/q)")
	zzAssert(!ok, "a Schnorr proof with one altered statement element, proof component or context string is refused")
}
