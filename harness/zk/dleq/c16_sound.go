package dleq

import (
	"crypto"

	"github.com/cloudflare/circl/group"
)

// C16 (soundness side): a DLEQ proof produced honestly for a true statement (A, kA, B, kB) is
// refused when any single statement element or proof scalar is altered - also when B is the identity -
// under the random-oracle assumptions switched on by zzROM (hash-to-scalar collision-free and
// non-zero on the queried points, element encoding injective).  All exponents symbolic (reals).

//zz: prop=C16 tier=quick backend=bv use=hashuf timeout=600
func ZZ_C16_dleq_altered_component_rejected() {
	zzROM = true
	zzH2SQueries, zzEncQueries = nil, nil
	G := zzGrp{}
	params := Params{G: G, H: crypto.SHA256, DST: []byte("ctx")}
	k, r := zzSclVar("k"), zzSclVar("r")
	zzAssumeNote(zzNot(k.IsZero()), "the witness k is non-zero (for k = 0 altering A or B leaves the statement true)")
	a := &zzElt{e: zzRVar("a")}
	zzAssumeNote(zzNot(a.IsIdentity()), "A is a generator (non-identity)")
	b := &zzElt{e: zzRVar("b")} // may be the identity
	ka := G.NewElement().Mul(a, k)
	kb := G.NewElement().Mul(b, k)
	proof, err := Prover{params}.ProveWithRandomness(k, a, ka, b, kb, r)
	zzAssert(err == nil, "prover succeeds")
	zzAssumeNote(zzNot(proof.s.IsZero()), "the response s = r - c*k is non-zero (fails with probability 1/q over the prover's randomness)")
	delta := zzRVar("delta")
	zzAssumeNote(zzNot(zzREq(delta, zzRConst(0))), "the alteration changes the value")
	bump := func(e group.Element) group.Element { return &zzElt{e: zzRAdd(e.(*zzElt).e, delta)} }
	a2, ka2, b2, kb2 := group.Element(a), ka, group.Element(b), kb
	p2 := &Proof{c: proof.c, s: proof.s}
	// (an altered challenge c is not in the list: the verifier then accepts iff the hash of a NEW
	// transcript equals the altered value - a random-oracle guessing event that an uninterpreted
	// hash cannot exclude; every other alteration would need a collision with the honest query)
	switch zzPick("altered", 0, 1, 2, 3, 5) {
	case 0:
		a2 = bump(a)
	case 1:
		ka2 = bump(ka)
	case 2:
		b2 = bump(b)
	case 3:
		kb2 = bump(kb)
	case 5:
		p2.s = &zzScl{v: zzRAdd(proof.s.(*zzScl).v, delta)}
	}
	zzAssert(!Verifier{params}.Verify(a2, ka2, b2, kb2, p2), "a proof with one altered statement element or scalar is refused")
}
