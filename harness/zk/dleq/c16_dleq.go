package dleq

import (
	"crypto"
	"hash"

	"github.com/cloudflare/circl/group"
)

// hash function of the Params as a transcript model: Sum = UF(all bytes written)
type zzHash struct{ data []byte }

func (h *zzHash) Write(p []byte) (int, error) { h.data = append(h.data, p...); return len(p), nil }
func (h *zzHash) Sum(b []byte) []byte         { return append(b, zzUF("H", 32, h.data)...) }
func (h *zzHash) Reset()                      { h.data = nil }
func (h *zzHash) Size() int                   { return 32 }
func (h *zzHash) BlockSize() int              { return 64 }

//zz:replace (crypto.Hash).New set=hashuf
func zzStubHashNew(h crypto.Hash) hash.Hash { return &zzHash{} }

// C16: DLEQ proofs (RFC 9497 §2.2) over the abstract group: an honestly generated proof verifies,
// for every key k, every randomness r, every generator a and every batch of elements (exponents
// symbolic); the verifier's recomputed commitments s*A + c*kA and s*M + c*Z equal the prover's
// r*A and r*M as polynomial identities, and the challenge is recomputed from the same transcript.
func zzDleqHonest(batch int) {
	G := zzGrp{}
	params := Params{G: G, H: crypto.SHA256, DST: []byte("ctx")}
	k := zzSclVar("k")
	r := zzSclVar("r")
	a := &zzElt{e: zzRVar("a")}
	ka := G.NewElement().Mul(a, k)
	bi := make([]group.Element, batch)
	kbi := make([]group.Element, batch)
	for i := range bi {
		bi[i] = &zzElt{e: zzRVar("b" + string(rune('0'+i)))}
		kbi[i] = G.NewElement().Mul(bi[i], k)
	}
	proof, err := Prover{params}.ProveBatchWithRandomness(k, a, ka, bi, kbi, r)
	zzAssert(err == nil, "prover succeeds")
	ok := Verifier{params}.VerifyBatch(a, ka, bi, kbi, proof)
	zzAssert(ok, "honest DLEQ proof verifies")
}

//zz: prop=C16 tier=quick backend=bv use=hashuf timeout=300
func ZZ_C16_dleq_complete_batch1() { zzDleqHonest(1) }

//zz: prop=C16 tier=quick backend=bv use=hashuf timeout=300
func ZZ_C16_dleq_complete_batch2() { zzDleqHonest(2) }
