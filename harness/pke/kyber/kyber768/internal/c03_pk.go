package internal

import (
	common "github.com/cloudflare/circl/pke/kyber/internal/common"
)

// matrix expansion (SHAKE-128 rejection sampling) is irrelevant to key parsing: no-op

//zz:replace (*pke/kyber/kyber768/internal.Mat).Derive set=noderive
func zzStubDerive(m *Mat, seed *[32]byte, transpose bool) {}

// C03/C09: the ML-KEM encapsulation-key check of FIPS 203 §7.2: a key is accepted iff every
// 12-bit coefficient is reduced (< q), and an accepted key re-encodes to the parsed bytes.
//
//zz: prop=C03 tier=quick backend=bv timeout=120 use=noderive
func ZZ_C03_UnpackMLKEM_modulus_check_kyber768() {
	buf := make([]byte, K*common.PolySize+32)
	zzFill("ek", buf)
	var pk PublicKey
	err := pk.UnpackMLKEM(buf)
	reduced := []bool{}
	for i := 0; i < K*common.N; i++ {
		var c uint16
		for j := 0; j < 12; j++ {
			pos := i*12 + j
			c |= uint16((buf[pos/8]>>uint(pos%8))&1) << uint(j)
		}
		reduced = append(reduced, c < uint16(common.Q))
	}
	zzAssert(zzIff(err == nil, zzAnd(reduced...)), "encapsulation key accepted iff every coefficient < q")
	var out [K*common.PolySize + 32]byte
	if err == nil {
		pk.Pack(out[:])
		zzAssert(zzBytesEq(out[:], buf), "accepted key re-encodes to the parsed bytes")
	}
}

//zz: prop=C09 tier=quick backend=bv timeout=120 use=noderive
func ZZ_C09_UnpackMLKEM_modulus_check_kyber768() { ZZ_C03_UnpackMLKEM_modulus_check_kyber768() }
