package common

// C03: the scalar helpers of Z_q (q = 3329) over their entire documented domains.

// barrettReduce: for every int16 x: 0 <= y <= q, y ≡ x (mod q), and y = q iff x is a negative multiple of q.
//
//zz: prop=C03 tier=quick backend=bv timeout=120
func ZZ_C03_barrettReduce() {
	x := zzI16("x")
	y := barrettReduce(x)
	zzAssert(y >= 0 && y <= Q, "0 <= y <= q")
	zzAssert((int32(x)-int32(y))%int32(Q) == 0, "y ≡ x mod q")
	negMult := x < 0 && int32(x)%int32(Q) == 0
	zzAssert(zzIff(y == Q, negMult), "y = q iff x is a negative multiple of q")
}

// csubq on its documented domain x >= -29439
//
//zz: prop=C03 tier=quick backend=bv
func ZZ_C03_csubq() {
	x := zzI16("x")
	zzAssume(x >= -29439)
	y := csubq(x)
	if x < Q {
		zzAssert(y == x, "x < q: unchanged")
	} else {
		zzAssert(y == x-Q, "x >= q: x - q")
	}
}

// normalisation: csubq(barrettReduce(x)) is the canonical representative for every int16
//
//zz: prop=C03 tier=quick backend=bv timeout=120
func ZZ_C03_normalize_scalar() {
	x := zzI16("x")
	y := csubq(barrettReduce(x))
	r := int32(x) % int32(Q)
	if r < 0 {
		r += int32(Q)
	}
	zzAssert(int32(y) == r, "csubq(barrett(x)) = x mod q in [0,q)")
}

// montReduce on its documented domain -2^15 q <= x < 2^15 q: -q < y < q and y*2^16 ≡ x (mod q)
//
//zz: prop=C03 tier=quick backend=lia timeout=120
func ZZ_C03_montReduce() {
	x := zzI32("x")
	zzAssume(x >= -(1<<15)*int32(Q) && x < (1<<15)*int32(Q))
	y := montReduce(x)
	zzAssert(y > -Q && y < Q, "-q < y < q")
	zzAssert(zzWCong(zzWMulC(zzWS(int64(y)), "65536"), zzWS(int64(x)), "3329"), "y * 2^16 ≡ x mod q")
}

// toMont: any int16 x: |y| < q and y ≡ x * 2^16
//
//zz: prop=C03 tier=quick backend=lia timeout=120
func ZZ_C03_toMont() {
	x := zzI16("x")
	y := toMont(x)
	zzAssert(y > -Q && y < Q, "-q < y < q")
	zzAssert(zzWCong(zzWS(int64(y)), zzWMulC(zzWS(int64(x)), "65536"), "3329"), "y ≡ x * 2^16 mod q")
}

//zz: prop=C03 tier=quick backend=bv expect=fail
func ZZ_C03_selftest_barrett_never_q() {
	x := zzI16("x")
	zzAssert(barrettReduce(x) != Q, "barrettReduce never returns q (false: x=-q)")
}
