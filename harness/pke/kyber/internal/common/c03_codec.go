package common

// C03: compression / encoding of whole polynomials against FIPS 203 §4.2.1 (Compress_d,
// Decompress_d with exact rounding division; ByteEncode_d / ByteDecode_d bit by bit).

func zzNormPoly(name string) *Poly {
	p := new(Poly)
	zzFill(name, p)
	cs := make([]bool, 0, N)
	for i := 0; i < N; i++ {
		cs = append(cs, p[i] >= 0 && p[i] < Q)
	}
	zzAssumeNote(zzAnd(cs...), "polynomial is normalised (0 <= c < q), the documented precondition of Pack/CompressTo")
	return p
}

// FIPS 203 (4.7): Compress_d(x) = round(2^d/q * x) mod 2^d, exact integer arithmetic
func zzCompressRef(x int16, d uint) uint16 {
	return uint16(((uint32(x)<<d)+uint32(Q)/2)/uint32(Q)) & ((1 << d) - 1)
}

// FIPS 203 (4.8): Decompress_d(y) = round(q/2^d * y)
func zzDecompressRef(y uint16, d uint) int16 {
	return int16((uint32(y)*uint32(Q) + (1 << (d - 1))) >> d)
}

// ByteEncode_d: bit j of value i goes to bit position d*i+j of the output
func zzByteEncodeRef(vals []uint16, d int) []byte {
	out := make([]byte, len(vals)*d/8)
	for i, v := range vals {
		for j := 0; j < d; j++ {
			pos := i*d + j
			out[pos/8] |= byte((v>>uint(j))&1) << uint(pos%8)
		}
	}
	return out
}

// ByteDecode_d of value i: bit j of value i is bit d*i+j of the byte string (inverse of ByteEncode_d,
// a bijection between 32d-byte strings and 256 d-bit values, so comparing values compares all bytes)
func zzByteDecodeAt(m []byte, d, i int) uint16 {
	var y uint16
	for j := 0; j < d; j++ {
		pos := i*d + j
		y |= uint16((m[pos/8]>>uint(pos%8))&1) << uint(j)
	}
	return y
}

func zzCompressCheck(d int) {
	p := zzNormPoly("p")
	m := make([]byte, N*d/8)
	p.CompressTo(m, d)
	for i := 0; i < N; i++ {
		zzAssert(zzByteDecodeAt(m, d, i) == zzCompressRef(p[i], uint(d)), "ByteDecode_d(CompressTo(p))[i] = Compress_d(p[i])")
	}
}

func zzDecompressCheck(d int) {
	m := make([]byte, N*d/8)
	zzFill("m", m)
	var p Poly
	p.Decompress(m, d)
	for i := 0; i < N; i++ {
		var y uint16
		for j := 0; j < d; j++ {
			pos := i*d + j
			y |= uint16((m[pos/8]>>uint(pos%8))&1) << uint(j)
		}
		zzAssert(p[i] == zzDecompressRef(y, uint(d)), "Decompress = Decompress_d(ByteDecode_d(m))")
		zzAssert(p[i] >= 0 && p[i] < Q, "Decompress output normalised")
		zzAssert(zzCompressRef(p[i], uint(d)) == y, "Compress_d(Decompress_d(y)) = y")
	}
}

//zz: prop=C03 tier=quick backend=bv timeout=120
func ZZ_C03_CompressTo_d4() { zzCompressCheck(4) }

//zz: prop=C03 tier=quick backend=bv timeout=120
func ZZ_C03_CompressTo_d5() { zzCompressCheck(5) }

//zz: prop=C03 tier=quick backend=bv timeout=120
func ZZ_C03_CompressTo_d10() { zzCompressCheck(10) }

//zz: prop=C03 tier=quick backend=bv timeout=120
func ZZ_C03_CompressTo_d11() { zzCompressCheck(11) }

//zz: prop=C03 tier=quick backend=bv timeout=120
func ZZ_C03_Decompress_d4() { zzDecompressCheck(4) }

//zz: prop=C03 tier=quick backend=bv timeout=120
func ZZ_C03_Decompress_d5() { zzDecompressCheck(5) }

//zz: prop=C03 tier=quick backend=bv timeout=120
func ZZ_C03_Decompress_d10() { zzDecompressCheck(10) }

//zz: prop=C03 tier=quick backend=bv timeout=120
func ZZ_C03_Decompress_d11() { zzDecompressCheck(11) }

// message encoding: d = 1
//
//zz: prop=C03 tier=quick backend=bv timeout=120
func ZZ_C03_Message_codec() {
	p := zzNormPoly("p")
	m := make([]byte, 32)
	p.CompressMessageTo(m)
	for i := 0; i < N; i++ {
		bit := (m[i/8] >> uint(i%8)) & 1
		zzAssert(uint16(bit) == zzCompressRef(p[i], 1), "CompressMessageTo = ByteEncode_1(Compress_1(p))")
	}
	m2 := make([]byte, 32)
	zzFill("m2", m2)
	var q Poly
	q.DecompressMessage(m2)
	for i := 0; i < N; i++ {
		bit := uint16((m2[i/8] >> uint(i%8)) & 1)
		zzAssert(q[i] == zzDecompressRef(bit, 1), "DecompressMessage = Decompress_1(ByteDecode_1(m))")
	}
}

// Pack = ByteEncode_12, Unpack(Pack(p)) = p, and Unpack yields 12-bit values
//
//zz: prop=C03 tier=quick backend=bv timeout=120
func ZZ_C03_Pack_Unpack() {
	p := zzNormPoly("p")
	buf := make([]byte, PolySize)
	p.Pack(buf)
	vals := make([]uint16, N)
	for i := 0; i < N; i++ {
		vals[i] = uint16(p[i])
	}
	ref := zzByteEncodeRef(vals, 12)
	for i := range buf {
		zzAssert(buf[i] == ref[i], "Pack = ByteEncode_12")
	}
	var q Poly
	q.Unpack(buf)
	for i := 0; i < N; i++ {
		zzAssert(q[i] == p[i], "Unpack(Pack(p)) = p")
	}
	raw := make([]byte, PolySize)
	zzFill("raw", raw)
	var r Poly
	r.Unpack(raw)
	for i := 0; i < N; i++ {
		var y uint16
		for j := 0; j < 12; j++ {
			pos := i*12 + j
			y |= uint16((raw[pos/8]>>uint(pos%8))&1) << uint(j)
		}
		zzAssert(uint16(r[i]) == y, "Unpack = ByteDecode_12 (12-bit values)")
	}
}
