package tkn

// C10: the ciphertext / policy parsers of CP-ABE never panic, for every byte string of every length
// in the stated ranges (every byte symbolic).  Pairing-group element decoding below them uses the
// field kernels as uninterpreted functions (sets ffuf, ffsign, ffrange, g1member of ecc/bls12381).

//zz: prop=C10 tier=quick backend=bv maxpaths=60000 budget=600
func ZZ_C10_tkn_Policy_UnmarshalBinary() {
	n := zzLen("len", 0, 14)
	data := make([]byte, n)
	zzFill("data", data)
	if n >= 2 {
		// formula length field: case split over 0..3 and the over-long values 200, 65535 (explicit)
		fl := zzPick("formulaLen", 0, 1, 2, 3, 200, 65535)
		data[0], data[1] = byte(fl), byte(fl>>8)
		if 2+fl+2 <= n {
			zzAssumeNote(zzAnd2(data[2+fl] <= 2, data[2+fl+1] == 0), "bound: at most 2 input wires announced (the wire count sizes an allocation)")
		}
	}
	var p Policy
	_ = p.UnmarshalBinary(data)
}

//zz: prop=C10 tier=quick backend=bv maxpaths=60000 budget=300
func ZZ_C10_tkn_Wire_UnmarshalBinary() {
	n := zzLen("len", 0, 10)
	data := make([]byte, n)
	zzFill("data", data)
	var w Wire
	_ = w.UnmarshalBinary(data)
}

//zz: prop=C10 tier=quick backend=bv use=g12free maxpaths=60000 budget=900 workers=1
func ZZ_C10_tkn_ciphertext_parsers() {
	n := zzPick("len", 0, 1, 5, 6, 7, 8, 10, 12) // 6 = len("v1.3.8"), the version prefix
	ct := make([]byte, n)
	zzFill("ct", ct)
	switch zzPick("entry", 0, 1, 2) {
	case 0:
		_ = CouldDecrypt(ct, &Attributes{})
	case 1:
		var p Policy
		_ = p.ExtractFromCiphertext(ct)
	case 2:
		_, _ = DecryptCCA(ct, &AttributesKey{})
	}
}

// header = lenPrefixed(policy) || lenPrefixed(c1 matrix) || c2 count || ... : a concrete minimal policy
// (no gates, no wires) and an empty matrix, followed by every tail of 0..5 symbolic bytes
//
//zz: prop=C10 tier=quick backend=bv use=g12free maxpaths=60000 budget=900 workers=1
func ZZ_C10_tkn_ciphertextHeader_unmarshalBinary_tail() {
	prefix := []byte{6, 0, 2, 0, 0, 0, 0, 0, 4, 0, 0, 0, 0, 0}
	n := zzLen("tail", 0, 5)
	tail := make([]byte, n)
	zzFill("tail", tail)
	if n >= 2 {
		zzAssumeNote(zzAnd2(tail[0] <= 1, tail[1] == 0), "bound: at most one c2 matrix announced (the count sizes an allocation)")
	}
	if n >= 4 {
		zzAssumeNote(zzAnd2(tail[2] <= 1, tail[3] == 0), "bound: the next 16-bit field is at most 1")
	}
	var h ciphertextHeader
	err := h.unmarshalBinary(append(prefix, tail...))
	if n >= 4 {
		zzReach("the concrete prefix is accepted and the counts are read")
	}
	_ = err
}
