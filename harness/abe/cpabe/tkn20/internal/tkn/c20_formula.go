package tkn

// C20 (access-structure level): for every formula of n <= 2 gates given by ARBITRARY gate tuples
// (class, in0, in1, out symbolic) and every set of available input wires: satisfaction succeeds
// iff the formula is a well-formed and/or tree that evaluates to true on the available wires, and
// the returned wires are available and by themselves satisfy the tree (they are what decapsulation
// combines).  C10: the well-formedness checks are sufficient for every later index.

func zzGates(n int) []Gate {
	gs := make([]Gate, n)
	for i := range gs {
		gs[i].Class = int(zzU8("class") & 1)
		gs[i].In0 = int(zzI8("in0"))
		gs[i].In1 = int(zzI8("in1"))
		gs[i].Out = int(zzI8("out"))
	}
	return gs
}

// reference: a formula is a tree over wires 0..2n: inputs 0..n, gate outputs n+1..2n, root 2n,
// every wire used exactly once as an input except the root, every gate output distinct.
// evaluation by recursion on the wire number (depth bounded by n)
func zzEval(gs []Gate, n int, wire int, avail []bool, depth int) bool {
	if wire <= n {
		return avail[wire]
	}
	if depth > n {
		return false
	}
	for _, g := range gs {
		if g.Out == wire {
			a := zzEval(gs, n, g.In0, avail, depth+1)
			b := zzEval(gs, n, g.In1, avail, depth+1)
			if g.Class == Andgate {
				return a && b
			}
			return a || b
		}
	}
	return false
}

func zzFormulaCheck(n int) {
	gs := zzGates(n)
	f := &Formula{Gates: append([]Gate{}, gs...)}
	mask := zzPick("availmask", 0, 1, 2, 3, 4, 5, 6, 7)
	avail := make([]bool, 2*n+1)
	var available []match
	for w := 0; w <= n; w++ {
		if mask>>uint(w)&1 == 1 {
			avail[w] = true
			available = append(available, match{wire: w})
		}
	}
	wf := f.wellformed() == nil
	got, err := f.satisfaction(available)
	if err == nil {
		zzAssert(wf, "satisfaction only succeeds on well-formed formulas")
		zzAssert(zzEval(gs, n, 2*n, avail, 0), "satisfaction succeeds only if the tree evaluates to true on the available wires")
		only := make([]bool, 2*n+1)
		for _, m := range got {
			zzAssert(m.wire >= 0 && m.wire <= n && avail[m.wire], "returned wire is an available input wire")
			only[m.wire] = true
		}
		zzAssert(zzEval(gs, n, 2*n, only, 0), "the returned wires by themselves satisfy the tree")
	} else if wf {
		// well-formed tree (toposort may still reject cycles): a true tree must be accepted
		if f.toposort() == nil {
			zzAssert(!zzEval(gs, n, 2*n, avail, 0), "a satisfiable well-formed formula is accepted")
		}
	}
}

//zz: prop=C20 tier=quick backend=bv maxpaths=200000 budget=600 timeout=60
func ZZ_C20_formula_satisfaction_n1() { zzFormulaCheck(1) }

//zz: prop=C20 tier=thorough backend=bv maxpaths=2000000 budget=3000 timeout=60
func ZZ_C20_formula_satisfaction_n2() { zzFormulaCheck(2) }

// C10: formula decoding and evaluation never panic on arbitrary bytes (gate count <= 2)
//
//zz: prop=C10 tier=quick backend=bv maxpaths=200000 budget=600 timeout=60
func ZZ_C10_tkn_Formula_UnmarshalBinary() {
	n := zzLen("len", 0, 17)
	data := make([]byte, n)
	zzFill("data", data)
	if n >= 2 {
		zzAssumeNote(zzAnd2(data[1] == 0, data[0] <= 2), "bound: encoded gate count <= 2")
	}
	var f Formula
	if f.UnmarshalBinary(data) == nil {
		_, _ = f.satisfaction([]match{{wire: 0}})
	}
}
