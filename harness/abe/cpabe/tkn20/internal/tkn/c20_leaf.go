package tkn

import pairing "github.com/cloudflare/circl/ecc/bls12381"

// C20 ("a leaf holds only when the label is present"): the leaf rule of Policy.Satisfaction on a
// one-leaf policy, for every combination of: leaf positive / negated, label present / absent in the
// attribute set, attribute value equal / different, attribute wild or not (polarity and wildness symbolic, the other two enumerated as paths).  The
// policy is satisfied exactly when the label is present and (wild, or the values are equal for a
// positive leaf, different for a negated one).

//zz: prop=C20 tier=quick backend=bv timeout=300 workers=1
func ZZ_C20_tkn_satisfaction_leaf_rule() {
	one, two := &pairing.Scalar{}, &pairing.Scalar{}
	one.SetUint64(1)
	two.SetUint64(2)
	positive := zzBool("positive")
	present := zzPick("present", 0, 1) == 1
	equal := zzPick("equal", 0, 1) == 1
	wild := zzBool("wild")
	p := &Policy{Inputs: []Wire{{Label: "a", Value: one, Positive: positive}}, F: Formula{}}
	attrs := Attributes{"b": {Value: one}}
	if present {
		v := two
		if equal {
			v = one
		}
		attrs["a"] = Attribute{wild: wild, Value: v}
	}
	_, err := p.Satisfaction(&attrs)
	want := present && (wild || equal == positive)
	zzAssert((err == nil) == want, "a leaf holds iff its label is present and (wild, or the values agree for a positive leaf, differ for a negated one)")
}
