package tkn

import (
	"io"

	pairing "github.com/cloudflare/circl/ecc/bls12381"
	"golang.org/x/crypto/blake2b"
)

// C20 (CCA envelope): for every message (lengths 0, 1, 3, 55..57, 120, all bytes symbolic) and every encryption
// seed, DecryptCCA(EncryptCCA(m)) returns exactly m when decapsulation recovers the encapsulated
// point (the attributes satisfy the policy) - including the empty message - and fails when it does
// not.  The pairing-based encapsulation, the header codec and the BLAKE2 primitives are replaced by
// uninterpreted functions / fixed objects (set "ccauf"); framing, envelope layout, length checks,
// tag/id comparison and the final copy are the real code.

var (
	zzEncPoint  = &pairing.Gt{}
	zzEncKey    [8]byte
	zzHeaderEnc [5]byte
	zzDecapsOK  bool
)

//zz:replace abe/cpabe/tkn20/internal/tkn.expandSeed set=ccauf
func zzStubExpandSeed(seed []byte) ([]byte, []byte, error) {
	return zzUF("expandSeed.id", 32, seed), zzUF("expandSeed.key", 32, seed), nil
}

//zz:replace (*abe/cpabe/tkn20/internal/tkn.Policy).transformBK set=ccauf
func zzStubTransformBK(p *Policy, val *pairing.Scalar) *Policy { return p }

// the identity scalar only feeds transformBK (stubbed): reducing 32 symbolic bytes mod r is skipped
//
//zz:replace (*ecc/bls12381/ff.Scalar).SetBytes set=ccauf
func zzStubScalarSetBytes(z *pairing.Scalar, data []byte) {}

//zz:replace abe/cpabe/tkn20/internal/tkn.encapsulate set=ccauf
func zzStubEncapsulate(rand io.Reader, pp *PublicParams, policy *Policy) (*ciphertextHeader, *pairing.Gt, error) {
	return &ciphertextHeader{p: policy}, zzEncPoint, nil
}

//zz:replace abe/cpabe/tkn20/internal/tkn.decapsulate set=ccauf
func zzStubDecapsulate(header *ciphertextHeader, key *AttributesKey) (*pairing.Gt, error) {
	if zzDecapsOK {
		return zzEncPoint, nil
	}
	return nil, errBadMatrixSize
}

//zz:replace (*abe/cpabe/tkn20/internal/tkn.ciphertextHeader).marshalBinary set=ccauf
func zzStubHeaderMarshal(hdr *ciphertextHeader) ([]byte, error) {
	return append([]byte{}, zzHeaderEnc[:]...), nil
}

//zz:replace (*abe/cpabe/tkn20/internal/tkn.ciphertextHeader).unmarshalBinary set=ccauf
func zzStubHeaderUnmarshal(hdr *ciphertextHeader, data []byte) error {
	hdr.p = &Policy{}
	return nil
}

//zz:replace (*ecc/bls12381.Gt).MarshalBinary set=ccauf
func zzStubGtMarshal(z *pairing.Gt) ([]byte, error) { return append([]byte{}, zzEncKey[:]...), nil }

//zz:replace golang.org/x/crypto/blake2b.Sum256 set=ccauf
func zzStubBlakeSum256(data []byte) [32]byte {
	var out [32]byte
	copy(out[:], zzUF("blake2b256", 32, data))
	return out
}

// the envelope cipher is the real blakeEncrypt / blakeDecrypt code over an uninterpreted keystream:
// BLAKE2Xb(key) is a fixed 256-byte function of the key, read sequentially
type zzXOFReader struct {
	stream []byte
	pos    int
}

func (r *zzXOFReader) Read(p []byte) (int, error) {
	n := copy(p, r.stream[r.pos:])
	r.pos += n
	return n, nil
}
func (r *zzXOFReader) Write(p []byte) (int, error) { return len(p), nil }
func (r *zzXOFReader) Clone() blake2b.XOF           { c := *r; return &c }
func (r *zzXOFReader) Reset()                       { r.pos = 0 }

//zz:replace golang.org/x/crypto/blake2b.NewXOF set=ccauf
func zzStubNewXOF(size uint32, key []byte) (blake2b.XOF, error) {
	return &zzXOFReader{stream: zzUF("blake2xof", 256, key)}, nil
}

//zz:replace abe/cpabe/tkn20/internal/tkn.blakeMac set=ccauf
func zzStubBlakeMac(key []byte, msg []byte) ([]byte, error) { return zzUF("blake2mac", 32, key, msg), nil }

type zzSeedReader struct{}

func (zzSeedReader) Read(p []byte) (int, error) {
	zzFill("seed", p)
	return len(p), nil
}

//zz: prop=C20 tier=quick backend=bv use=ccauf timeout=600 budget=1200 workers=1
func ZZ_C20_cca_envelope_roundtrip() {
	if !zzSymbolic() {
		zzModelOnly() // pairing encapsulation and BLAKE2 are uninterpreted here
	}
	zzFill("encKey", &zzEncKey)
	zzFill("headerBytes", &zzHeaderEnc)
	zzDecapsOK = zzPick("attributesSatisfyPolicy", 1, 0) == 1
	msg := make([]byte, zzPick("msglen", 0, 1, 3, 55, 56, 57, 120)) // 72-byte seed + 56 / 120 = a whole number of 64-byte keystream blocks
	zzFill("msg", msg)
	ct, err := EncryptCCA(zzSeedReader{}, &PublicParams{}, &Policy{}, msg)
	zzAssert(err == nil, "encryption succeeds")
	out, err := DecryptCCA(ct, &AttributesKey{})
	if zzDecapsOK {
		zzAssert(err == nil, "decryption of an honest ciphertext succeeds when the attributes satisfy the policy (any message length, also empty)")
		zzAssert(zzAnd2(len(out) == len(msg), zzBytesEq(out, msg)), "decryption returns exactly the message")
	} else {
		zzAssert(err != nil, "decryption fails when decapsulation fails")
	}
}
