package frodo640shake

// contract of the constant-time comparison used as a summary in c01_decaps.go (kept in its own file:
// it is the only harness code that names the internal function)

//zz: prop=C01 tier=quick backend=bv timeout=300
func ZZ_C01_frodo_ctCompareU16_contract() {
	n := zzPick("len", 1, 64, 640)
	a, b := make([]uint16, n), make([]uint16, n)
	zzFill("a", a)
	zzFill("b", b)
	same := []bool{}
	for i := range a {
		same = append(same, a[i] == b[i])
	}
	r := ctCompareU16(a, b)
	zzAssert(zzIff(r == 0, zzAnd(same...)), "ctCompareU16 = 0 iff the arrays are equal")
	zzAssert(zzOr2(r == 0, r == 1), "ctCompareU16 returns 0 or 1")
	zzAssert(ctCompareU16(a, b[:n-1]) == 1, "different lengths compare unequal")
}

