package frodo640shake

import "github.com/cloudflare/circl/internal/sha3"

// C01: FrodoKEM-640-SHAKE decapsulation is the Fujisaki-Okamoto transform of the specification for
// EVERY ciphertext and private key: the shared secret is SHAKE128(ct || k') when both halves of
// the re-encryption match (B' == B'' and C == C'), and SHAKE128(ct || s) - the implicit-rejection
// value, which depends on the secret s - otherwise.  The matrix products, the noise sampler and the
// expansion of A are memo functions (fresh outputs, identical for syntactically identical inputs) / no-ops (set "frodouf"), Keccak-p is an
// uninterpreted function (set "keccakuf"); unpacking, message decoding/encoding, the comparison,
// the selector and the sponge calls are the real code on symbolic data.

//zz:replace kem/frodo/frodo640shake.mulBS set=frodouf
func zzStubMulBS(out *nbarByNbarU16, b *nbarByNU16, s *nByNbarU16) { zzMemoObj("frodo.mulBS", out, b, s) }

//zz:replace kem/frodo/frodo640shake.mulAddSAPlusE set=frodouf
func zzStubMulAddSAPlusE(out *nbarByNU16, s []uint16, A *nByNU16, e []uint16) {
	zzMemoObj("frodo.SA+E", out, s, e) // A is a function of the (fixed) public seed
}

//zz:replace kem/frodo/frodo640shake.mulAddSBPlusE set=frodouf
func zzStubMulAddSBPlusE(out *nbarByNbarU16, s []uint16, b *nByNbarU16, e []uint16) {
	zzMemoObj("frodo.SB+E", out, s, b, e)
}

//zz:replace kem/frodo/frodo640shake.sample set=frodouf
func zzStubSample(sampled []uint16) {}

//zz:replace kem/frodo/frodo640shake.expandSeedIntoA set=frodouf
func zzStubExpandSeedIntoA(A *nByNU16, seed *[seedASize]byte, xof *sha3.State) {}

// summary of the constant-time comparison (set "frodouf"): 0 iff all elements are equal, else 1;
// that the real ctCompareU16 meets this contract for every pair of arrays is decided by
// ZZ_C01_frodo_ctCompareU16_contract below.

//zz:replace kem/frodo/frodo640shake.ctCompareU16 set=frodouf
func zzStubCtCompareU16(lhs, rhs []uint16) int {
	if len(lhs) != len(rhs) {
		return 1
	}
	same := []bool{}
	for i := range lhs {
		same = append(same, lhs[i] == rhs[i])
	}
	return zzIteInt(zzAnd(same...), 0, 1)
}

func zzShake128(out []byte, parts ...[]byte) {
	h := sha3.NewShake128()
	for _, p := range parts {
		_, _ = h.Write(p)
	}
	_, _ = h.Read(out)
}

// FrodoKEM.Decaps, transcribed from the specification (Algorithm 14) over the same primitives
func zzFrodoDecapsRef(ss []byte, sk *PrivateKey, ct []byte) {
	var Bp, BBp nbarByNU16
	var C, W, CC nbarByNbarU16
	var mu [messageSize]byte
	unpack(Bp[:], ct[:matrixBpPackedSize])
	unpack(C[:], ct[matrixBpPackedSize:])
	mulBS(&W, &Bp, &sk.matrixS)
	sub(&W, &C, &W)
	decodeMessage(&mu, &W)
	var g2 [2 * SharedKeySize]byte
	zzShake128(g2[:], sk.hpk[:], mu[:])
	seedSE, k := g2[:SharedKeySize], g2[SharedKeySize:]
	var r [2 * (2*paramN*paramNbar + paramNbar*paramNbar)]byte
	zzShake128(r[:], []byte{0x96}, seedSE)
	var v [2*paramN*paramNbar + paramNbar*paramNbar]uint16
	for i := range v {
		v[i] = uint16(r[2*i]) | uint16(r[2*i+1])<<8
	}
	sample(v[:])
	Sp, Ep, Epp := v[:paramN*paramNbar], v[paramN*paramNbar:2*paramN*paramNbar], v[2*paramN*paramNbar:]
	var A nByNU16
	mulAddSAPlusE(&BBp, Sp, &A, Ep)
	for i := range BBp {
		BBp[i] &= logQMask
	}
	mulAddSBPlusE(&W, Sp, &sk.pk.matrixB, Epp)
	encodeMessage(&CC, &mu)
	add(&CC, &W, &CC)
	same := []bool{}
	for i := range Bp {
		same = append(same, Bp[i] == BBp[i])
	}
	for i := range C {
		same = append(same, C[i] == CC[i])
	}
	kbar := make([]byte, SharedKeySize)
	ok := zzAnd(same...)
	for i := range kbar {
		kbar[i] = uint8(zzIteU64(ok, uint64(k[i]), uint64(sk.hashInputIfDecapsFail[i])))
	}
	zzShake128(ss, ct, kbar)
}

//zz: prop=C01 tier=quick backend=bv use=frodouf,keccakuf timeout=600 budget=1200
func ZZ_C01_frodo640shake_decaps_is_FO_transform() {
	if !zzSymbolic() {
		zzModelOnly() // matrix arithmetic is uninterpreted here
	}
	sk := &PrivateKey{pk: &PublicKey{}}
	zzFill("s", &sk.hashInputIfDecapsFail)
	zzFill("S", &sk.matrixS)
	zzFill("hpk", &sk.hpk)
	zzFill("B", &sk.pk.matrixB)
	ct := make([]byte, CiphertextSize)
	zzFill("ct", ct)
	got, want := make([]byte, SharedKeySize), make([]byte, SharedKeySize)
	sk.DecapsulateTo(got, ct)
	zzFrodoDecapsRef(want, sk, ct)
	zzAssert(zzBytesEq(got, want), "DecapsulateTo = FO transform with implicit rejection, for every ciphertext")
}
