package frodo640shake

// C01/C11: FrodoKEM's 15-bit packing.  For every block of coefficients and every previous content of
// the output buffer, pack writes bytes that depend only on the coefficients (the API lets callers
// pass any buffer to EncapsulateTo / Pack) and unpack inverts it, so that a ciphertext or key
// written into a reused buffer decodes to what was encoded.

//zz: prop=C01 also=C11 tier=quick backend=bv timeout=120
func ZZ_C01_frodo_pack_unpack_roundtrip_into_used_buffer() {
	in := make([]uint16, 16)
	zzFill("in", in)
	used, fresh := make([]byte, 30), make([]byte, 30)
	zzFill("previous", used)
	pack(used, in)
	pack(fresh, in)
	zzAssert(zzBytesEq(used, fresh), "packing into a used buffer = packing into a zeroed buffer")
	back := make([]uint16, 16)
	zzFill("previousOut", back)
	unpack(back, used)
	eq := []bool{}
	for i := range in {
		eq = append(eq, back[i] == in[i]&logQMask)
	}
	zzAssert(zzAnd(eq...), "unpack(pack(x)) = x mod q")
}
