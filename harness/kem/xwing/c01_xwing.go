package xwing

import (
	"github.com/cloudflare/circl/internal/sha3"
	"github.com/cloudflare/circl/kem/mlkem/mlkem768"
	fp "github.com/cloudflare/circl/math/fp25519"
)

// C01: X-Wing decapsulation (draft-connolly-cfrg-xwing-kem): for EVERY 1120-byte ciphertext
//   ss = SHA3-256( ss_M || ss_X || ct_X || pk_X || XWingLabel ),  ss_M = ML-KEM-768.Decaps(sk_M, ct_M),
//   ss_X = X25519(sk_X, ct_X),  with ct_X the RECEIVED 32 bytes (every bit of the ciphertext is bound).
// ML-KEM-768 decapsulation, the X25519 ladder and the Keccak permutation are uninterpreted functions;
// x25519.Shared (masking, reduction, low-order test) and the combiner are the real code.

//zz:replace (*kem/mlkem/mlkem768.PrivateKey).DecapsulateTo set=mlkemuf
func zzStubMLKEMDecaps(sk *mlkem768.PrivateKey, ss, ct []byte) {
	copy(ss, zzUF("mlkem768.decaps", mlkem768.SharedKeySize, ct))
}

//zz: prop=C01 tier=quick backend=bv use=mlkemuf,ladder,keccakuf timeout=300
func ZZ_C01_xwing_decaps_binds_whole_ciphertext() {
	if !zzSymbolic() {
		zzModelOnly() // ML-KEM, X25519 and Keccak-p are uninterpreted here
	}
	var sk PrivateKey
	zzFill("skx", &sk.x)
	zzFill("pkx", &sk.xpk)
	ct := make([]byte, CiphertextSize)
	zzFill("ct", ct)
	ct0 := append([]byte{}, ct...)
	ss := make([]byte, SharedKeySize)
	sk.DecapsulateTo(ss, ct)

	// reference
	ssm := zzUF("mlkem768.decaps", mlkem768.SharedKeySize, ct0[:mlkem768.CiphertextSize])
	ctx := ct0[mlkem768.CiphertextSize:]
	// X25519(sk_X, ct_X): clamp, mask the top bit, ladder (uninterpreted)
	var k, u [32]byte
	copy(k[:], sk.x[:])
	k[0] &= 248
	k[31] = (k[31] & 127) | 64
	copy(u[:], ctx)
	u[31] &= 127
	fp.Modp((*fp.Elt)(&u)) // the ladder is fed the reduced u-coordinate (congruent mod p)
	ssx := zzUF("x25519.ladder", 32, k[:], u[:])
	h := sha3.New256()
	_, _ = h.Write(ssm)
	_, _ = h.Write(ssx)
	_, _ = h.Write(ctx)
	_, _ = h.Write(sk.xpk[:])
	_, _ = h.Write([]byte(`\.//^\`))
	want := make([]byte, SharedKeySize)
	_, _ = h.Read(want)
	zzAssert(zzBytesEq(ss, want), "ss = SHA3-256(ss_M || ss_X || ct_X || pk_X || label) with the received ct_X")
	zzAssert(zzBytesEq(ct, ct0), "ciphertext operand unchanged")
}
