package mlkem768

import (
	"github.com/cloudflare/circl/internal/sha3"
	cpapke "github.com/cloudflare/circl/pke/kyber/kyber768"
)

// C01: ML-KEM decapsulation is the Fujisaki-Okamoto transform of FIPS 203 Algorithm 18 for EVERY
// ciphertext: with K-PKE encryption/decryption as uninterpreted functions and the Keccak permutation
// as an uninterpreted function under the real sponge code,
//   m' = Dec(sk, c); (K, r) = G(m' || H(ek)); c' = Enc(ek, m', r); ss = (c == c') ? K : J(z || c).
// This runs the real constant-time compare over all ciphertext bytes and the real conditional copy,
// i.e. the implicit-rejection branch that no test input reaches.

//zz:replace (*pke/kyber/kyber768.PrivateKey).DecryptTo set=pkeuf
func zzStubDec(sk *cpapke.PrivateKey, pt, ct []byte) { copy(pt, zzUF("kpke.dec", 32, ct)) }

//zz:replace (*pke/kyber/kyber768.PublicKey).EncryptTo set=pkeuf
func zzStubEnc(pk *cpapke.PublicKey, ct, pt, seed []byte) {
	copy(ct, zzUF("kpke.enc", len(ct), pt, seed))
}

func zzKey() *PrivateKey {
	sk := &PrivateKey{sk: new(cpapke.PrivateKey), pk: new(cpapke.PublicKey)}
	zzFill("hpk", &sk.hpk)
	zzFill("z", &sk.z)
	return sk
}

//zz: prop=C01 also=C03 tier=quick backend=bv use=pkeuf,keccakuf timeout=300
func ZZ_C01_mlkem768_decaps_is_FO_transform() {
	sk := zzKey()
	ct := make([]byte, CiphertextSize)
	zzFill("ct", ct)
	ct0 := append([]byte{}, ct...)
	ss := make([]byte, SharedKeySize)
	sk.DecapsulateTo(ss, ct)

	// reference: FIPS 203 Algorithm 18 (ML-KEM.Decaps_internal)
	var m [32]byte
	sk.sk.DecryptTo(m[:], ct0)
	var kr [64]byte
	g := sha3.New512()
	_, _ = g.Write(m[:])
	_, _ = g.Write(sk.hpk[:])
	_, _ = g.Read(kr[:])
	var kbar [32]byte
	j := sha3.NewShake256()
	_, _ = j.Write(sk.z[:])
	_, _ = j.Write(ct0)
	_, _ = j.Read(kbar[:])
	c2 := make([]byte, CiphertextSize)
	sk.pk.EncryptTo(c2, m[:], kr[32:])
	same := zzBytesEq(ct0, c2)
	for i := 0; i < SharedKeySize; i++ {
		want := kbar[i]
		if same {
			want = kr[i]
		}
		zzAssert(ss[i] == want, "ss = (c == c') ? K : J(z || c)")
	}
	zzAssert(zzBytesEq(ct, ct0), "ciphertext operand unchanged")
}

// encapsulate then decapsulate returns the encapsulated secret for every seed (axiom: Dec(Enc(m, r)) = m)
//
//zz: prop=C01 tier=quick backend=bv use=pkeuf,keccakuf timeout=300
func ZZ_C01_mlkem768_decaps_inverts_encaps() {
	sk := zzKey()
	pk := &PublicKey{pk: sk.pk, hpk: sk.hpk}
	seed := make([]byte, EncapsulationSeedSize)
	zzFill("seed", seed)
	ct := make([]byte, CiphertextSize)
	ss1 := make([]byte, SharedKeySize)
	pk.EncapsulateTo(ct, ss1, seed)
	var m [32]byte
	sk.sk.DecryptTo(m[:], ct)
	zzAssumeNote(zzBytesEq(m[:], seed), "K-PKE correctness: Dec(sk, Enc(ek, m, r)) = m (assumed; the kernels are C03)")
	ss2 := make([]byte, SharedKeySize)
	sk.DecapsulateTo(ss2, ct)
	zzAssert(zzBytesEq(ss1, ss2), "decapsulation returns the encapsulated secret")
}
