package mlkem512

import "github.com/cloudflare/circl/internal/sha3"

// C03: the ML-KEM decapsulation-key check of FIPS 203 7.3 ("hash check"): a decapsulation key is
// accepted iff the 32 bytes stored after the embedded encapsulation key equal SHA3-256 of exactly
// the embedded encapsulation-key BYTES as received (not of a re-encoding), for every key string.
// Keccak-p is an uninterpreted function (set "keccakuf"), matrix expansion a no-op (set "noderive").

//zz: prop=C03 tier=quick backend=bv use=keccakuf,noderive timeout=300
func ZZ_C03_mlkem512_decapsulation_key_hash_check() {
	buf := make([]byte, PrivateKeySize)
	zzFill("dk", buf)
	var sk PrivateKey
	err := sk.Unpack(buf)
	ek := buf[PrivateKeySize-PublicKeySize-64 : PrivateKeySize-64]
	var want [32]byte
	h := sha3.New256()
	_, _ = h.Write(ek)
	_, _ = h.Read(want[:])
	zzAssert(zzIff(err == nil, zzBytesEq(want[:], buf[PrivateKeySize-64:PrivateKeySize-32])), "dk accepted iff its hash field = SHA3-256(embedded ek bytes as received)")
}
