package hybrid

import (
	"github.com/cloudflare/circl/dh/x25519"
	"github.com/cloudflare/circl/dh/x448"
)

// C06: "the TLS-hybrid ... key-encapsulation mechanisms built on these functions turn a false flag
// into an error": the X25519 / X448 component of kem/hybrid returns an error exactly when Shared
// reports failure and otherwise hands out exactly the value Shared produced, for every key pair of
// bytes.  Shared itself (ladder, flag) is decided in dh/x25519, dh/x448; here it is a stub that writes
// an arbitrary output and returns an arbitrary flag (set "sharedfree").

var zzFlag bool
var zzOut []byte

//zz:replace dh/x25519.Shared set=sharedfree
func zzStubShared25519(shared, secret, public *x25519.Key) bool {
	zzHavoc(shared)
	zzOut = append([]byte{}, shared[:]...)
	zzFlag = zzFreshBool()
	return zzFlag
}

//zz:replace dh/x448.Shared set=sharedfree
func zzStubShared448(shared, secret, public *x448.Key) bool {
	zzHavoc(shared)
	zzOut = append([]byte{}, shared[:]...)
	zzFlag = zzFreshBool()
	return zzFlag
}

//zz: prop=C06 also=C01 tier=quick backend=bv use=sharedfree timeout=120
func ZZ_C06_hybrid_xkem_turns_a_false_flag_into_an_error() {
	if !zzSymbolic() {
		zzModelOnly()
	}
	sch := x25519Kem
	if zzPick("curve", 0, 1) == 1 {
		sch = x448Kem
	}
	pk := &xPublicKey{scheme: sch, key: make([]byte, sch.size)}
	sk := &xPrivateKey{scheme: sch, key: make([]byte, sch.size)}
	zzFill("pk", pk.key)
	zzFill("sk", sk.key)
	ss, err := pk.X(sk)
	zzAssert(zzIff(err != nil, !zzFlag), "an error is returned exactly when Shared reports failure")
	if err == nil {
		zzAssert(zzBytesEq(ss, zzOut), "the shared value is the one Shared produced")
	} else {
		zzAssert(ss == nil, "no shared value is released with the error")
	}
}
