package kyber768

import (
	"github.com/cloudflare/circl/internal/sha3"
	cpapke "github.com/cloudflare/circl/pke/kyber/kyber768"
)

// C01: Kyber round-3 decapsulation (Algorithm 9 of the round-3 specification) for EVERY ciphertext:
//   m' = Dec(sk, c); (K', r') = G(m' || H(pk)); c' = Enc(pk, m', r');
//   ss = KDF((c == c' ? K' : z) || H(c))
// K-PKE and the Keccak permutation are uninterpreted functions; compare/copy/sponge code is real.

//zz:replace (*pke/kyber/kyber768.PrivateKey).DecryptTo set=pkeuf
func zzStubDec(sk *cpapke.PrivateKey, pt, ct []byte) { copy(pt, zzUF("kpke.dec", 32, ct)) }

//zz:replace (*pke/kyber/kyber768.PublicKey).EncryptTo set=pkeuf
func zzStubEnc(pk *cpapke.PublicKey, ct, pt, seed []byte) {
	copy(ct, zzUF("kpke.enc", len(ct), pt, seed))
}

func zzKey() *PrivateKey {
	sk := &PrivateKey{sk: new(cpapke.PrivateKey), pk: new(cpapke.PublicKey)}
	zzFill("hpk", &sk.hpk)
	zzFill("z", &sk.z)
	return sk
}

//zz: prop=C01 also=C03 tier=quick backend=bv use=pkeuf,keccakuf timeout=300
func ZZ_C01_kyber768_r3_decaps_is_FO_transform() {
	sk := zzKey()
	ct := make([]byte, CiphertextSize)
	zzFill("ct", ct)
	ss := make([]byte, SharedKeySize)
	sk.DecapsulateTo(ss, ct)

	var m [32]byte
	sk.sk.DecryptTo(m[:], ct)
	var kr [64]byte
	g := sha3.New512()
	_, _ = g.Write(m[:])
	_, _ = g.Write(sk.hpk[:])
	_, _ = g.Read(kr[:])
	c2 := make([]byte, CiphertextSize)
	sk.pk.EncryptTo(c2, m[:], kr[32:])
	var hc [32]byte
	h := sha3.New256()
	_, _ = h.Write(ct)
	_, _ = h.Read(hc[:])
	same := zzBytesEq(ct, c2)
	var pre [64]byte
	for i := 0; i < 32; i++ {
		pre[i] = sk.z[i]
		if same {
			pre[i] = kr[i]
		}
		pre[32+i] = hc[i]
	}
	want := make([]byte, SharedKeySize)
	kdf := sha3.NewShake256()
	_, _ = kdf.Write(pre[:])
	_, _ = kdf.Read(want)
	zzAssert(zzBytesEq(ss, want), "ss = KDF((c == c' ? K' : z) || H(c))")
}

//zz: prop=C01 tier=quick backend=bv use=pkeuf,keccakuf timeout=300
func ZZ_C01_kyber768_r3_decaps_inverts_encaps() {
	sk := zzKey()
	pk := &PublicKey{pk: sk.pk, hpk: sk.hpk}
	seed := make([]byte, EncapsulationSeedSize)
	zzFill("seed", seed)
	ct := make([]byte, CiphertextSize)
	ss1 := make([]byte, SharedKeySize)
	pk.EncapsulateTo(ct, ss1, seed)
	var hm, m [32]byte
	h := sha3.New256()
	_, _ = h.Write(seed)
	_, _ = h.Read(hm[:])
	sk.sk.DecryptTo(m[:], ct)
	zzAssumeNote(zzBytesEq(m[:], hm[:]), "K-PKE correctness: Dec(sk, Enc(pk, m, r)) = m (assumed; the kernels are C03)")
	ss2 := make([]byte, SharedKeySize)
	sk.DecapsulateTo(ss2, ct)
	zzAssert(zzBytesEq(ss1, ss2), "decapsulation returns the encapsulated secret")
}
