package secretsharing

import "github.com/cloudflare/circl/group"

// C17: Shamir / Feldman secret sharing over the abstract field: for threshold t, every secret,
// every coefficient vector and every choice of DISTINCT NON-ZERO share identifiers (all symbolic):
// any t+1 shares recover exactly the secret; t or fewer are refused; every dealt share verifies;
// a share with altered value or identifier does not.

func zzDeal(t uint) (SecretSharing, *zzScl) {
	secret := zzSclVar("secret")
	ss := New(nil, t, secret) // coefficients: fresh symbolic scalars (RandomScalar of the model)
	return ss, secret
}

func zzDistinctIDs(n int) []*zzScl {
	ids := make([]*zzScl, n)
	for i := range ids {
		ids[i] = zzSclVar("id" + string(rune('0'+i)))
		zzAssume(zzNot(zzREq(ids[i].v, zzRConst(0))))
		for j := 0; j < i; j++ {
			zzAssume(zzNot(zzREq(ids[i].v, ids[j].v)))
		}
	}
	return ids
}

func zzRecoverCheck(t uint) {
	ss, secret := zzDeal(t)
	ids := zzDistinctIDs(int(t) + 1)
	shares := make([]Share, t+1)
	for i, id := range ids {
		shares[i] = ss.ShareWithID(id)
	}
	got, err := Recover(t, shares)
	zzAssert(err == nil, "t+1 shares are accepted")
	zzAssert(got.IsEqual(secret), "t+1 distinct shares recover exactly the secret")
	_, err2 := Recover(t, shares[:t])
	zzAssert(err2 != nil, "t shares are refused")
	_, err3 := Recover(t, nil)
	zzAssert(err3 != nil, "no shares are refused")
}

//zz: prop=C17 tier=quick backend=nra timeout=300 use=absfield
func ZZ_C17_shamir_recover_t1() { zzRecoverCheck(1) }

//zz: prop=C17 tier=quick backend=nra timeout=300 use=absfield
func ZZ_C17_shamir_recover_t2() { zzRecoverCheck(2) }

//zz: prop=C17 tier=thorough backend=nra timeout=900 use=absfield
func ZZ_C17_shamir_recover_t3() { zzRecoverCheck(3) }

func zzVerifyCheck(t uint) {
	ss, _ := zzDeal(t)
	com := ss.CommitSecret()
	id := zzDistinctIDs(1)[0]
	sh := ss.ShareWithID(id)
	zzAssert(Verify(t, sh, com), "every dealt share verifies against the commitment")
	delta := zzSclVar("delta")
	zzAssume(zzNot(zzREq(delta.v, zzRConst(0))))
	bad := Share{ID: sh.ID.Copy(), Value: zzGrp{}.NewScalar().Add(sh.Value, delta)}
	zzAssert(!Verify(t, bad, com), "a share with an altered value does not verify")
	zzAssert(!Verify(t+1, sh, com), "a commitment of the wrong length is refused")
	var zero group.Scalar = zzGrp{}.NewScalar()
	zzAssert(!Verify(t, Share{ID: zero, Value: sh.Value}, com), "identifier zero is refused")
}

//zz: prop=C17 tier=quick backend=nra timeout=300 use=absfield
func ZZ_C17_feldman_verify_t1() { zzVerifyCheck(1) }

//zz: prop=C17 tier=quick backend=nra timeout=300 use=absfield
func ZZ_C17_feldman_verify_t2() { zzVerifyCheck(2) }
