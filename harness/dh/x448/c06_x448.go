package x448

import fp "github.com/cloudflare/circl/math/fp448"

// C06: X448 input handling equals RFC 7748 and the flag is false exactly for u mod p in {0, 1, p-1}.

const zzP448 = "0xfffffffffffffffffffffffffffffffffffffffffffffffffffffffeffffffffffffffffffffffffffffffffffffffffffffffffffffffff"

var zzLadderK, zzLadderU Key
var zzLadderCalls int

//zz:replace dh/x448.ladderMontgomery set=ladder
func zzStubLadder(k, xP *Key) {
	zzLadderK, zzLadderU = *k, *xP
	zzLadderCalls++
	// one call per harness (asserted): an arbitrary fresh output is as general as an uninterpreted function
	var out Key
	zzFill("x448.ladder.out", &out)
	*k = out
}

// clamp = decodeScalar448 of RFC 7748 §5
//
//zz: prop=C06 tier=quick backend=bv
func ZZ_C06_x448_clamp() {
	var in, out Key
	zzFill("k", &in)
	out.clamp(&in)
	for i := 0; i < Size; i++ {
		want := in[i]
		if i == 0 {
			want &= 252
		}
		if i == 55 {
			want |= 128
		}
		zzAssert(out[i] == want, "clamp = decodeScalar448")
	}
}

//zz: prop=C06 tier=quick backend=lia use=ladder timeout=300
func ZZ_C06_x448_Shared_flag() {
	var shared, secret, public Key
	zzFill("secret", &secret)
	zzFillLimbs("public", public[:])
	pub0 := public
	sec0 := secret
	ok := Shared(&shared, &secret, &public)
	u := zzWMod(zzWLE(pub0[:]), zzP448)
	low := zzOr(
		zzWEq(u, zzWConst("0")),
		zzWEq(u, zzWConst("1")),
		zzWEq(u, zzWConst("726838724295606890549323807888004534353641360687318060281490199180612328166730772686396383698676545930088884461843637361053498018365438")),
	)
	// C06: "the success flag is false exactly when the output is all zero".  The ladder is an
	// uninterpreted function here, so the statement is checked for whatever it returns: a zero
	// output always clears the flag (also for an honest point: 4*l is a clamped scalar), and the
	// flag is cleared only for a zero output or one of the small-order inputs.  That a small-order
	// input makes the real ladder return zero is curve theory (stated assumption).
	var acc byte
	for i := 0; i < Size; i++ {
		acc |= shared[i]
	}
	zero := acc == 0
	zzAssert(zzImplies(zero, !ok), "an all-zero output clears the success flag")
	zzAssert(zzImplies(low, !ok), "the flag is false for u mod p in {0, 1, p-1}")
	zzAssert(zzImplies(zzAnd(!zero, zzNot(low)), ok), "the flag is false only for a zero output or a small-order input")
	zzAssert(zzLadderCalls == 1, "ladder called once")
	zzAssert(zzWCong(zzWLE(zzLadderU[:]), zzWLE(pub0[:]), zzP448), "ladder input ≡ u (mod p)")
	var ck Key
	ck.clamp(&sec0)
	zzAssert(zzLadderK == ck, "ladder scalar = clamp(secret)")
	for i := 0; i < Size; i++ {
		zzAssert(public[i] == pub0[i] && secret[i] == sec0[i], "operands unchanged")
	}
}

// the value written by the ladder's final conversion is the canonical representative (< p):
// RFC 7748 outputs are reduced encodings (inversion as an uninterpreted function, real Mul/ToBytes)

//zz:replace math/fp448.Inv set=invuf
func zzStubInv(z, x *fp.Elt) { copy(z[:], zzUF("fp448.inv", fp.Size, x[:])) }

//zz: prop=C06 tier=quick backend=lia use=invuf timeout=300
func ZZ_C06_x448_toAffine_canonical() {
	var x, z fp.Elt
	zzFillLimbs("x", x[:])
	zzFillLimbs("z", z[:])
	var k [fp.Size]byte
	toAffine(&k, &x, &z)
	zzAssert(zzWLt(zzWLE(k[:]), zzWConst(zzP448)), "ladder output is the canonical representative (< p)")
}
