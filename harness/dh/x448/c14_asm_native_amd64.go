//go:build amd64 && !purego

package x448

import fp "github.com/cloudflare/circl/math/fp448"

func zzNativeMulA24(feature bool, z, x *fp.Elt) {
	save := hasBmi2Adx
	hasBmi2Adx = feature
	defer func() { hasBmi2Adx = save }()
	mulA24Amd64(z, x)
}
