package csidh

import "io"

// C10: key import never panics, for every length
//
//zz: prop=C10 tier=quick backend=bv
func ZZ_C10_csidh_Import() {
	n := zzPick("len", 0, 1, 36, 37, 38, 63, 64, 65)
	key := make([]byte, n)
	zzFill("key", key)
	var prv PrivateKey
	_ = prv.Import(key)
	var pub PublicKey
	_ = pub.Import(key)
}

// C11: decoding into a previously used object gives the same result as decoding into a fresh one
//
//zz: prop=C11 tier=quick backend=bv
func ZZ_C11_csidh_PublicKey_Import_into_used() {
	key := make([]byte, PublicKeySize)
	zzFill("key", key)
	var used, fresh PublicKey
	zzFill("previous", &used.a)
	ok1 := used.Import(key)
	ok2 := fresh.Import(key)
	zzAssert(ok1 && ok2, "import of a correctly sized key succeeds")
	zzAssert(used.a == fresh.a, "import into a used key = import into a fresh key")
	out := make([]byte, PublicKeySize)
	zzAssert(used.Export(out) && zzBytesEq(out, key), "export after import returns the imported bytes")
}

//zz: prop=C11 tier=quick backend=bv
func ZZ_C11_csidh_PrivateKey_Import_into_used() {
	key := make([]byte, PrivateKeySize)
	zzFill("key", key)
	var used, fresh PrivateKey
	zzFill("previous", &used.e)
	zzAssert(used.Import(key) && fresh.Import(key), "import succeeds")
	zzAssert(used.e == fresh.e, "import into a used key = import into a fresh key")
}

// C11: DeriveSecret does not change the value of its operands pub and prv (only out).  The class
// group action and the supersingularity test are replaced by their contracts (set "csidhuf"):
// groupAction(pub, prv) replaces pub.a by a function of (pub.a, prv.e) - which is what the real
// routine is documented to do ("group action of prv.e on the curve pub.A", result in pub) - and
// Validate returns an arbitrary verdict.

//zz:replace dh/csidh.groupAction set=csidhuf
func zzStubGroupAction(pub *PublicKey, prv *PrivateKey, rng io.Reader) {
	in := pub.a
	zzUFObj("csidh.action", &pub.a, &in, &prv.e)
}

//zz:replace dh/csidh.Validate set=csidhuf
func zzStubValidate(pub *PublicKey, rng io.Reader) bool { return zzFreshBool() }

//zz: prop=C11 tier=quick backend=bv use=csidhuf timeout=120
func ZZ_C11_csidh_DeriveSecret_leaves_operands_unchanged() {
	if !zzSymbolic() {
		zzModelOnly() // the group action is an uninterpreted function here
	}
	var pub PublicKey
	var prv PrivateKey
	zzFill("pub", &pub.a)
	zzFill("prv", &prv.e)
	pub0, prv0 := pub.a, prv.e
	var out, out2 [64]byte
	ok := DeriveSecret(&out, &pub, &prv, nil)
	zzAssert(pub.a == pub0, "DeriveSecret leaves the peer's public key unchanged")
	zzAssert(prv.e == prv0, "DeriveSecret leaves the private key unchanged")
	// and a second derivation with the same operands gives the same secret
	ok2 := DeriveSecret(&out2, &pub, &prv, nil)
	if ok && ok2 {
		zzAssert(out == out2, "deriving twice from the same operands gives the same secret")
	}
}
