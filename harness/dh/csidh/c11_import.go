package csidh

// C10: key import never panics, for every length
//
//zz: prop=C10 tier=quick backend=bv
func ZZ_C10_csidh_Import() {
	n := zzPick("len", 0, 1, 36, 37, 38, 63, 64, 65)
	key := make([]byte, n)
	zzFill("key", key)
	var prv PrivateKey
	_ = prv.Import(key)
	var pub PublicKey
	_ = pub.Import(key)
}

// C11: decoding into a previously used object gives the same result as decoding into a fresh one
//
//zz: prop=C11 tier=quick backend=bv
func ZZ_C11_csidh_PublicKey_Import_into_used() {
	key := make([]byte, PublicKeySize)
	zzFill("key", key)
	var used, fresh PublicKey
	zzFill("previous", &used.a)
	ok1 := used.Import(key)
	ok2 := fresh.Import(key)
	zzAssert(ok1 && ok2, "import of a correctly sized key succeeds")
	zzAssert(used.a == fresh.a, "import into a used key = import into a fresh key")
	out := make([]byte, PublicKeySize)
	zzAssert(used.Export(out) && zzBytesEq(out, key), "export after import returns the imported bytes")
}

//zz: prop=C11 tier=quick backend=bv
func ZZ_C11_csidh_PrivateKey_Import_into_used() {
	key := make([]byte, PrivateKeySize)
	zzFill("key", key)
	var used, fresh PrivateKey
	zzFill("previous", &used.e)
	zzAssert(used.Import(key) && fresh.Import(key), "import succeeds")
	zzAssert(used.e == fresh.e, "import into a used key = import into a fresh key")
}
