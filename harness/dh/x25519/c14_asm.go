package x25519

import fp "github.com/cloudflare/circl/math/fp25519"

// C14/C06: the amd64 assembly of the Montgomery-ladder helpers, executed from the assembler's
// listing for both CPU-feature settings: mulA24 returns a value congruent to (A+2)/4 * x = 121666 * x
// mod p for every field string x (all carry folds present), exactly the contract of the portable
// mulA24Generic.  (ladderStep / diffAdd / double chain several 64x64 multiplications and are not
// within reach: see DESIGN.md.)

const zzPField = "0x7fffffffffffffffffffffffffffffffffffffffffffffffffffffffffffffed"

func zzMulA24Asm(feature bool, z, x *fp.Elt) {
	if !zzSymbolic() {
		zzNativeMulA24(feature, z, x)
		return
	}
	zzAsmCall("dh/x25519/curve_amd64.s", "mulA24Amd64", feature, z, x)
}

//zz: prop=C14 also=C06 tier=quick backend=lia timeout=300
func ZZ_C14_x25519_asm_mulA24() {
	feature := zzPick("hasBmi2Adx", 0, 1) == 1
	x, z := new(fp.Elt), new(fp.Elt)
	zzFillLimbs("x", x[:])
	want := zzWMulC(zzWLE(x[:]), "121666")
	zzMulA24Asm(feature, z, x)
	zzAssert(zzWCong(zzWLE(z[:]), want, zzPField), "assembly mulA24 congruent to 121666 * x mod p")
	var g fp.Elt
	mulA24Generic(&g, x)
	zzAssert(zzWCong(zzWLE(g[:]), want, zzPField), "portable mulA24 congruent to 121666 * x mod p")
}
