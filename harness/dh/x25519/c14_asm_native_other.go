//go:build !amd64 || purego

package x25519

import fp "github.com/cloudflare/circl/math/fp25519"

func zzNativeMulA24(feature bool, z, x *fp.Elt) {
	panic("ZZ-MODEL-ONLY: assembly routines are not part of this build")
}
