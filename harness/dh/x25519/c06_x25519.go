package x25519

import fp "github.com/cloudflare/circl/math/fp25519"

// C06: X25519 input handling equals RFC 7748 and the success flag is false exactly for the
// small-order u-coordinates.  The Montgomery ladder itself is replaced by a recorder: what is
// decided is the value handed to it and the flag (real fp.Modp carry chain and table compare).

const zzP25519 = "0x7fffffffffffffffffffffffffffffffffffffffffffffffffffffffffffffed"

var zzLadderK, zzLadderU Key
var zzLadderCalls int

//zz:replace dh/x25519.ladderMontgomery set=ladder
func zzStubLadder(k, xP *Key) {
	zzLadderK, zzLadderU = *k, *xP
	zzLadderCalls++
	copy(k[:], zzUF("x25519.ladder", Size, zzLadderK[:], zzLadderU[:]))
}

// clamp = decodeScalar25519 of RFC 7748 §5
//
//zz: prop=C06 tier=quick backend=bv
func ZZ_C06_x25519_clamp() {
	var in, out Key
	zzFill("k", &in)
	out.clamp(&in)
	for i := 0; i < Size; i++ {
		want := in[i]
		if i == 0 {
			want &= 248
		}
		if i == 31 {
			want &= 127
			want |= 64
		}
		zzAssert(out[i] == want, "clamp = decodeScalar25519")
	}
}

// RFC 7748 §6.1 / curve25519 small-order u-coordinates (independent decimal constants):
// 0, 1, 325606250916557431795983626356110631294008115727848805560023387167927233504,
// 39382357235489614581723060781553021112529911719440698176882885853963445705823, p-1
//
//zz: prop=C06 tier=quick backend=lia use=ladder timeout=300
func ZZ_C06_x25519_Shared_flag() {
	var shared, secret, public Key
	zzFill("secret", &secret)
	zzFillLimbs("public", public[:])
	pub0 := public
	sec0 := secret
	ok := Shared(&shared, &secret, &public)

	u := zzWMod(zzWMod(zzWLE(pub0[:]), "0x8000000000000000000000000000000000000000000000000000000000000000"), zzP25519)
	low := zzOr(
		zzWEq(u, zzWConst("0")),
		zzWEq(u, zzWConst("1")),
		zzWEq(u, zzWConst("325606250916557431795983626356110631294008115727848805560023387167927233504")),
		zzWEq(u, zzWConst("39382357235489614581723060781553021112529911719440698176882885853963445705823")),
		zzWEq(u, zzWConst("57896044618658097711785492504343953926634992332820282019728792003956564819948")),
	)
	zzAssert(zzIff(ok, zzNot(low)), "flag is false exactly for the five small-order residues")
	zzAssert(zzLadderCalls == 1, "ladder called once")
	// the ladder receives u with the top bit ignored, congruent to the input mod p
	zzAssert(zzWCong(zzWLE(zzLadderU[:]), zzWMod(zzWLE(pub0[:]), "0x8000000000000000000000000000000000000000000000000000000000000000"), zzP25519), "ladder input ≡ u mod 2^255 (mod p)")
	var ck Key
	ck.clamp(&sec0)
	zzAssert(zzLadderK == ck, "ladder scalar = clamp(secret)")
	for i := 0; i < Size; i++ {
		zzAssert(public[i] == pub0[i] && secret[i] == sec0[i], "operands unchanged")
	}
}

//zz:replace math/fp25519.Inv set=invuf
func zzStubInv(z, x *fp.Elt) { copy(z[:], zzUF("fp25519.inv", fp.Size, x[:])) }

//zz: prop=C06 tier=quick backend=lia use=invuf timeout=300
func ZZ_C06_x25519_toAffine_canonical() {
	var x, z fp.Elt
	zzFillLimbs("x", x[:])
	zzFillLimbs("z", z[:])
	var k [fp.Size]byte
	toAffine(&k, &x, &z)
	zzAssert(zzWLt(zzWLE(k[:]), zzWConst(zzP25519)), "ladder output is the canonical representative (< p)")
}
