package oprf

import "crypto"

// C16 (the central OPRF clause): for every server key k, every input, every non-zero client blind r
// - all symbolic, over the abstract prime-order group whose scalars are SMT reals - the client's
// finalised output equals the server's direct evaluation of the same input, hence does not depend
// on the blind: Finalize(Evaluate(Blind(x, r))) = FullEvaluate(x).  Base mode (no proof) and
// verifiable mode (the honest DLEQ proof is generated and checked by the real zk/dleq code over the
// same group), batch of one and two inputs.  Hash-to-group, hash-to-scalar, element encoding and the
// hash are uninterpreted functions.

func zzOPRFParams(m Mode) params {
	return params{m: m, group: zzGrp{}, hash: crypto.SHA512, identifier: "abstract"}
}

func zzInputs(n int) [][]byte {
	out := make([][]byte, n)
	for i := range out {
		out[i] = make([]byte, 2)
		zzFill("input", out[i])
	}
	return out
}

//zz: prop=C16 tier=quick backend=bv use=hashuf timeout=300
func ZZ_C16_oprf_base_mode_output_independent_of_blind() {
	if !zzSymbolic() {
		zzModelOnly()
	}
	p := zzOPRFParams(BaseMode)
	sk := &PrivateKey{p: p, k: zzSclVar("k")}
	srv := Server{server{p, sk}}
	cl := Client{client{p}}
	n := zzPick("batch", 1, 2)
	if zzThorough() {
		n = zzPick("batch", 1, 2, 3)
	}
	inputs := zzInputs(n)
	blinds := make([]Blind, n)
	for i := range blinds {
		b := zzSclVar("r" + string(rune('0'+i)))
		zzAssumeNote(zzNot(b.IsZero()), "blinds are non-zero scalars (RFC 9497: blind = RandomScalar is non-zero)")
		blinds[i] = b
	}
	fin, req, err := cl.DeterministicBlind(inputs, blinds)
	if err != nil {
		return // H(x) = identity (ErrInvalidInput)
	}
	zzReach("blinded")
	eval, err := srv.Evaluate(req)
	zzAssert(err == nil, "evaluation succeeds")
	outs, err := cl.Finalize(fin, eval)
	zzAssert(err == nil, "finalisation succeeds")
	for i := range inputs {
		direct, err := srv.FullEvaluate(inputs[i])
		zzAssert(err == nil, "direct evaluation succeeds")
		zzAssert(zzBytesEq(outs[i], direct), "finalised output = direct evaluation (independent of the blind)")
	}
	// finalisation does not consume or alter the client's state: finalising the same data again
	// (the blinds are still the ones chosen) gives the same outputs
	outs2, err := cl.Finalize(fin, eval)
	zzAssert(err == nil, "second finalisation succeeds")
	for i := range inputs {
		zzAssert(zzBytesEq(outs2[i], outs[i]), "finalising the same data twice gives the same output (the stored blinds are not modified)")
	}
}

//zz: prop=C16 tier=quick backend=bv use=hashuf timeout=600
func ZZ_C16_oprf_verifiable_mode_output_independent_of_blind() {
	if !zzSymbolic() {
		zzModelOnly()
	}
	p := zzOPRFParams(VerifiableMode)
	sk := &PrivateKey{p: p, k: zzSclVar("k")}
	srv := VerifiableServer{server{p, sk}}
	cl := VerifiableClient{client{p}, sk.Public()}
	inputs := zzInputs(1)
	b := zzSclVar("r")
	zzAssumeNote(zzNot(b.IsZero()), "blinds are non-zero scalars (RFC 9497: blind = RandomScalar is non-zero)")
	fin, req, err := cl.DeterministicBlind(inputs, []Blind{b})
	if err != nil {
		return
	}
	zzReach("blinded")
	eval, err := srv.Evaluate(req)
	zzAssert(err == nil, "evaluation with proof succeeds")
	outs, err := cl.Finalize(fin, eval)
	zzAssert(err == nil, "the honest proof verifies and finalisation succeeds")
	direct, err := srv.FullEvaluate(inputs[0])
	zzAssert(err == nil, "direct evaluation succeeds")
	zzAssert(zzBytesEq(outs[0], direct), "finalised output = direct evaluation (independent of the blind)")
}

//zz: prop=C16 tier=quick backend=bv use=hashuf timeout=600
func ZZ_C16_oprf_partially_oblivious_mode_output_independent_of_blind() {
	if !zzSymbolic() {
		zzModelOnly()
	}
	p := zzOPRFParams(PartialObliviousMode)
	sk := &PrivateKey{p: p, k: zzSclVar("k")}
	srv := PartialObliviousServer{server{p, sk}}
	cl := PartialObliviousClient{client{p}, sk.Public()}
	inputs := zzInputs(1)
	info := make([]byte, zzPick("infolen", 0, 2))
	zzFill("info", info)
	b := zzSclVar("r")
	zzAssumeNote(zzNot(b.IsZero()), "blinds are non-zero scalars (RFC 9497: blind = RandomScalar is non-zero)")
	fin, req, err := cl.DeterministicBlind(inputs, []Blind{b})
	if err != nil {
		return
	}
	eval, err := srv.Evaluate(req, info)
	if err != nil {
		return // k + H(info) = 0 (ErrInverseZero)
	}
	zzReach("evaluated")
	outs, err := cl.Finalize(fin, eval, info)
	zzAssert(err == nil, "the honest proof verifies and finalisation succeeds")
	direct, err := srv.FullEvaluate(inputs[0], info)
	zzAssert(err == nil, "direct evaluation succeeds")
	zzAssert(zzBytesEq(outs[0], direct), "finalised output = direct evaluation (independent of the blind)")
	zzAssert(srv.VerifyFinalize(inputs[0], info, outs[0]), "VerifyFinalize accepts the finalised output")
}

// verifiable mode: an evaluation whose element was altered (any non-zero difference), with the
// server's honest proof attached, is refused by Finalize - under the random-oracle assumptions of
// zzROM (hash-to-scalar collision-free and non-zero on the queried points, injective encoding)
//
//zz: prop=C16 tier=quick backend=bv use=hashuf timeout=600
func ZZ_C16_oprf_verifiable_mode_rejects_altered_evaluation() {
	if !zzSymbolic() {
		zzModelOnly()
	}
	zzROM = true
	zzH2SQueries, zzEncQueries = nil, nil
	p := zzOPRFParams(VerifiableMode)
	k := zzSclVar("k")
	zzAssumeNote(zzNot(k.IsZero()), "the server key is non-zero")
	sk := &PrivateKey{p: p, k: k}
	srv := VerifiableServer{server{p, sk}}
	cl := VerifiableClient{client{p}, sk.Public()}
	inputs := zzInputs(1)
	b := zzSclVar("r")
	zzAssumeNote(zzNot(b.IsZero()), "blinds are non-zero scalars")
	fin, req, err := cl.DeterministicBlind(inputs, []Blind{b})
	if err != nil {
		return
	}
	eval, err := srv.Evaluate(req)
	zzAssert(err == nil, "evaluation with proof succeeds")
	delta := zzSclVar("delta")
	zzAssumeNote(zzNot(delta.IsZero()), "the altered element differs from the honest one")
	honest := eval.Elements[0].(*zzElt)
	eval.Elements[0] = &zzElt{e: zzRAdd(honest.e, delta.v)}
	_, err = cl.Finalize(fin, eval)
	zzAssert(err != nil, "finalisation refuses an evaluation whose element was altered")
}

// verifiable and partially-oblivious mode: an evaluation whose proof has been removed (nil) or
// replaced by an empty proof object is refused with an error - it neither yields outputs nor panics
//
//zz: prop=C16 also=C10 tier=quick backend=bv use=hashuf timeout=600
func ZZ_C16_oprf_missing_proof_is_refused() {
	if !zzSymbolic() {
		zzModelOnly()
	}
	mode := VerifiableMode
	if zzPick("mode", 0, 1) == 1 {
		mode = PartialObliviousMode
	}
	p := zzOPRFParams(mode)
	k := zzSclVar("k")
	zzAssumeNote(zzNot(k.IsZero()), "the server key is non-zero")
	sk := &PrivateKey{p: p, k: k}
	inputs := zzInputs(1)
	b := zzSclVar("r")
	zzAssumeNote(zzNot(b.IsZero()), "blinds are non-zero scalars")
	info := []byte{7}
	var err error
	if mode == VerifiableMode {
		srv := VerifiableServer{server{p, sk}}
		cl := VerifiableClient{client{p}, sk.Public()}
		fin, req, e0 := cl.DeterministicBlind(inputs, []Blind{b})
		if e0 != nil {
			return
		}
		eval, e1 := srv.Evaluate(req)
		zzAssert(e1 == nil, "evaluation with proof succeeds")
		eval.Proof = nil
		_, err = cl.Finalize(fin, eval)
	} else {
		srv := PartialObliviousServer{server{p, sk}}
		cl := PartialObliviousClient{client{p}, sk.Public()}
		fin, req, e0 := cl.DeterministicBlind(inputs, []Blind{b})
		if e0 != nil {
			return
		}
		eval, e1 := srv.Evaluate(req, info)
		if e1 != nil {
			return
		}
		eval.Proof = nil
		_, err = cl.Finalize(fin, eval, info)
	}
	zzReach("finalised")
	zzAssert(err != nil, "finalisation refuses an evaluation without a proof")
}
