package oprf

// C11: an OPRF private key (ristretto255 suite; scalar bytes symbolic, fixed-base multiplication an
// uninterpreted function, set "r255uf").
//  - histories: decoding into a key object that already served Public() yields the same public key
//    as decoding into a fresh object (the cached public key must not survive the decode);
//  - schedules: two goroutines whose first Public() calls overlap obtain the key computed alone
//    and do not race.

//zz: prop=C11 tier=quick backend=bv use=r255uf timeout=120 maxpaths=2000
func ZZ_C11_oprf_PrivateKey_unmarshal_into_used() {
	a, b := make([]byte, 32), make([]byte, 32)
	zzFill("a", a)
	zzFill("b", b)
	var used, fresh PrivateKey
	if used.UnmarshalBinary(SuiteRistretto255, a) != nil {
		return
	}
	_ = used.Public()
	e1 := used.UnmarshalBinary(SuiteRistretto255, b)
	e2 := fresh.UnmarshalBinary(SuiteRistretto255, b)
	zzAssert((e1 == nil) == (e2 == nil), "same verdict for a used and a fresh receiver")
	if e1 != nil || e2 != nil {
		return
	}
	zzReach("both decoded")
	zzAssert(zzSame(used.Public(), fresh.Public()), "public key after decoding into a used key = public key of a freshly decoded key")
}

//zz: prop=C11 tier=quick backend=bv use=r255uf timeout=120 maxpaths=2000
func ZZ_C11_oprf_PrivateKey_Public_two_threads() {
	a := make([]byte, 32)
	zzFill("a", a)
	var ref, k PrivateKey
	if ref.UnmarshalBinary(SuiteRistretto255, a) != nil || k.UnmarshalBinary(SuiteRistretto255, a) != nil {
		return
	}
	want := ref.Public()
	var ra, rb *PublicKey
	at := zzPick("suspendAfterStore", 1, 2, 3, 4, 5, 6, 7, 8, 9, 10, 11, 12, 13, 14, 15, 16, 17, 18, 19, 20, 1000)
	pre := zzInterleave(
		func() { ra = k.Public() },
		func() { rb = k.Public() },
		at)
	if pre {
		zzReach("a schedule in which thread B runs while thread A is suspended")
	}
	zzAssert(zzSame(ra, want), "thread A obtains the public key computed alone")
	zzAssert(zzSame(rb, want), "thread B obtains the public key computed alone")
}
