package oprf

// C16: the Finalize hash input of RFC 9497 (3.3.1 / 3.3.3):
//   I2OSP(len(input),2) || input || [ I2OSP(len(info),2) || info  - POPRF mode only, also when
//   info is empty ] || I2OSP(len(element),2) || element || "Finalize"
// for every mode, symbolic input / info / element bytes and lengths including zero.  The hash is a
// recorder (a hash.Hash whose digest is the transcript of bytes written), so the framing is decided
// byte for byte.

type zzRecHash struct{ buf []byte }

func (r *zzRecHash) Write(p []byte) (int, error) { r.buf = append(r.buf, p...); return len(p), nil }
func (r *zzRecHash) Sum(b []byte) []byte         { return append(b, r.buf...) }
func (r *zzRecHash) Reset()                      { r.buf = nil }
func (r *zzRecHash) Size() int                   { return 0 }
func (r *zzRecHash) BlockSize() int              { return 1 }

//zz: prop=C16 tier=quick backend=bv timeout=120
func ZZ_C16_oprf_finalize_hash_input_is_RFC9497() {
	p := params{m: Mode(zzPick("mode", 0, 1, 2))}
	input := make([]byte, zzPick("inputlen", 0, 1, 3))
	info := make([]byte, zzPick("infolen", 0, 1, 2))
	elem := make([]byte, zzPick("elemlen", 1, 33))
	zzFill("input", input)
	zzFill("info", info)
	zzFill("element", elem)
	h := &zzRecHash{buf: []byte{0xAA}} // stale content must be discarded
	got := p.finalizeHash(h, input, info, elem)
	want := []byte{byte(len(input) >> 8), byte(len(input))}
	want = append(want, input...)
	if p.m == PartialObliviousMode {
		want = append(want, byte(len(info)>>8), byte(len(info)))
		want = append(want, info...)
	}
	want = append(want, byte(len(elem)>>8), byte(len(elem)))
	want = append(want, elem...)
	want = append(want, []byte("Finalize")...)
	zzAssert(zzBytesEq(got, want), "Finalize hash input = RFC 9497 framing")
}

// C16: the partially-oblivious tweak of RFC 9497 3.3.3: m = HashToScalar("Info" || I2OSP(len(info), 2)
// || info) with the domain separation tag "HashToScalar-" || context string, for every info string
// of the lengths 0, 1, 250, 251 and 300 (all bytes symbolic): every byte of info reaches the hash.

//zz: prop=C16 tier=quick backend=bv timeout=120
func ZZ_C16_oprf_scalarFromInfo_frames_the_whole_info() {
	p := params{m: PartialObliviousMode, group: zzGrp{}, identifier: "abstract"}
	info := make([]byte, zzPick("infolen", 0, 1, 250, 251, 300))
	zzFill("info", info)
	_, err := p.scalarFromInfo(info)
	zzAssert(err == nil, "info of at most 65535 bytes is accepted")
	want := append([]byte("Info"), byte(len(info)>>8), byte(len(info)))
	want = append(want, info...)
	zzAssert(zzBytesEq(zzH2SLastMsg, want), "hash-to-scalar input = \"Info\" || I2OSP(len(info), 2) || info")
}
