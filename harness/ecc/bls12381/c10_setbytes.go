package bls12381

// curve-level predicates as free booleans (set "g1free"): subgroup / on-curve checks are mathematics
// the harness does not decide; what is decided is that decoding never panics and honours them.

//zz:replace (*ecc/bls12381.G1).isRTorsion set=g1free
func zzStubG1RTorsion(g *G1) bool { return zzFreshBool() }

//zz:replace (*ecc/bls12381.G2).isRTorsion set=g1free
func zzStubG2RTorsion(g *G2) bool { return zzFreshBool() }

//zz:replace (*ecc/bls12381.G1).IsOnG1 set=g1member
func zzStubIsOnG1(g *G1) bool { return zzFreshBool() }

//zz:replace (*ecc/bls12381.G2).IsOnG2 set=g1member
func zzStubIsOnG2(g *G2) bool { return zzFreshBool() }

// C10: G1.SetBytes / G2.SetBytes never panic, for every length 0..98 (G1) and 0..194 (G2)
//
//zz: prop=C10 tier=quick backend=bv use=ffuf,ffsign,ffrange,g1member maxpaths=100000 budget=300
func ZZ_C10_bls12381_G1_SetBytes() {
	n := zzPick("len", 0, 1, 47, 48, 49, 95, 96, 97)
	b := make([]byte, n)
	zzFill("b", b)
	var g G1
	_ = g.SetBytes(b)
}

//zz: prop=C10 tier=quick backend=bv use=ffuf,ffsign,ffrange,g1member maxpaths=100000 budget=300
func ZZ_C10_bls12381_G2_SetBytes() {
	n := zzPick("len", 0, 1, 95, 96, 97, 191, 192, 193)
	b := make([]byte, n)
	zzFill("b", b)
	var g G2
	_ = g.SetBytes(b)
}

// C09: an accepted encoding has exactly the size its flag byte announces (48/96 for G1, 96/192 for
// G2): trailing bytes are refused, so that an accepted point re-serialises to the parsed bytes
//
//zz: prop=C09 tier=quick backend=bv use=ffuf,ffsign,ffrange,g1member maxpaths=100000 budget=300
func ZZ_C09_bls12381_SetBytes_exact_length() {
	if zzPick("group", 1, 2) == 1 {
		n := zzPick("len", 48, 49, 96, 97)
		b := make([]byte, n)
		zzFill("b", b)
		var g G1
		if g.SetBytes(b) == nil {
			compressed := b[0]>>7 == 1
			zzAssert(zzIff(compressed, n == G1SizeCompressed), "G1: accepted compressed encodings have 48 bytes")
			zzAssert(zzIff(zzNot(compressed), n == G1Size), "G1: accepted uncompressed encodings have 96 bytes")
		}
	} else {
		n := zzPick("len", 96, 97, 192, 193)
		b := make([]byte, n)
		zzFill("b", b)
		var g G2
		if g.SetBytes(b) == nil {
			compressed := b[0]>>7 == 1
			zzAssert(zzIff(compressed, n == G2SizeCompressed), "G2: accepted compressed encodings have 96 bytes")
			zzAssert(zzIff(zzNot(compressed), n == G2Size), "G2: accepted uncompressed encodings have 192 bytes")
		}
	}
}
