package bls12381

import "github.com/cloudflare/circl/ecc/bls12381/ff"

// curve-level predicates as free booleans (set "g1free"): subgroup / on-curve checks are mathematics
// the harness does not decide; what is decided is that decoding never panics and honours them.

//zz:replace (*ecc/bls12381.G1).isRTorsion set=g1free
func zzStubG1RTorsion(g *G1) bool { return zzFreshBool() }

//zz:replace (*ecc/bls12381.G2).isRTorsion set=g1free
func zzStubG2RTorsion(g *G2) bool { return zzFreshBool() }

//zz:replace (*ecc/bls12381.G1).IsOnG1 set=g1member
func zzStubIsOnG1(g *G1) bool { return zzFreshBool() }

//zz:replace (*ecc/bls12381.G2).IsOnG2 set=g1member
func zzStubIsOnG2(g *G2) bool { return zzFreshBool() }

// C10: G1.SetBytes / G2.SetBytes never panic, for every length 0..98 (G1) and 0..194 (G2)
//
//zz: prop=C10 tier=quick backend=bv use=ffuf,ffsign,ffrange,g1member maxpaths=100000 budget=300
func ZZ_C10_bls12381_G1_SetBytes() {
	n := zzPick("len", 0, 1, 47, 48, 49, 95, 96, 97)
	b := make([]byte, n)
	zzFill("b", b)
	var g G1
	_ = g.SetBytes(b)
}

//zz: prop=C10 tier=quick backend=bv use=ffuf,ffsign,ffrange,g1member maxpaths=100000 budget=300
func ZZ_C10_bls12381_G2_SetBytes() {
	n := zzPick("len", 0, 1, 95, 96, 97, 191, 192, 193)
	b := make([]byte, n)
	zzFill("b", b)
	var g G2
	_ = g.SetBytes(b)
}

// C09: at the exact encoded lengths of the compressed formats (48 for G1, 96 for G2) an accepted
// input carries the compression flag: an uncompressed encoding cut to half its size is refused. (The
// decoders are prefix decoders: bytes after a complete encoding are ignored, and the repository's own
// TestG1Serial/TestG2Serial "badLength" cases pin that; C09 quantifies over strings of the exact
// encoded length, so trailing bytes are outside it. An earlier version of this harness demanded
// rejection of trailing bytes, which was more than the property states; see DESIGN.md 0.4.)
//
//zz: prop=C09 tier=quick backend=bv use=ffuf,ffsign,ffrange,g1member maxpaths=100000 budget=300
func ZZ_C09_bls12381_SetBytes_length_vs_flag() {
	if zzPick("group", 1, 2) == 1 {
		b := make([]byte, G1SizeCompressed)
		zzFill("b", b)
		var g G1
		if g.SetBytes(b) == nil {
			zzAssert(b[0]>>7 == 1, "G1: a 48-byte input is accepted only as a compressed encoding")
		}
	} else {
		b := make([]byte, G2SizeCompressed)
		zzFill("b", b)
		var g G2
		if g.SetBytes(b) == nil {
			zzAssert(b[0]>>7 == 1, "G2: a 96-byte input is accepted only as a compressed encoding")
		}
	}
}

// C09: what the point decoders hand to the field decoder is exactly the coordinate bytes of the
// input: only the three flag bits of byte 0 are cleared, every other bit of x and y reaches the
// range check (so "coordinate >= p" and "unused high bits set" are refused by it and an accepted
// uncompressed encoding re-serialises to the parsed bytes); an accepted infinity encoding has no
// stray flag or payload bit; an accepted uncompressed encoding has all three flag bits clear.
//
//zz: prop=C09 also=C02 tier=quick backend=bv use=ffuf,ffsign,ffrecord,g1member maxpaths=100000 budget=300
func ZZ_C09_bls12381_G1_decoder_sees_exact_coordinates() {
	b := make([]byte, G1Size)
	zzFill("b", b)
	var g G1
	if !zzSymbolic() {
		zzModelOnly() // relies on the recording stub of the field decoder: no native counterpart
	}
	ff.ZZDecoded = nil
	if g.SetBytes(b) != nil {
		return
	}
	zzReach("accepted")
	compressed := b[0]>>7 == 1
	if (b[0]>>6)&1 == 1 {
		n := G1Size
		if compressed {
			n = G1SizeCompressed
		}
		zzAssert(b[0]&0x3F == 0, "G1 infinity: no stray flag or payload bit in byte 0")
		zzAssert(zzBytesEq(b[1:n], make([]byte, n-1)), "G1 infinity: payload is zero")
		return
	}
	x := append([]byte{}, b[:ff.FpSize]...)
	x[0] &= 0x1F
	if compressed {
		zzAssert(len(ff.ZZDecoded) == 1, "G1 compressed: one coordinate decoded")
		zzAssert(zzBytesEq(ff.ZZDecoded[0], x), "G1 compressed: x bytes reach the range check unmodified")
		return
	}
	zzAssert(b[0]&0xE0 == 0, "G1 uncompressed: flag bits clear")
	zzAssert(len(ff.ZZDecoded) == 2, "G1 uncompressed: two coordinates decoded")
	zzAssert(zzBytesEq(ff.ZZDecoded[0], x), "G1 uncompressed: x bytes reach the range check unmodified")
	zzAssert(zzBytesEq(ff.ZZDecoded[1], b[ff.FpSize:G1Size]), "G1 uncompressed: y bytes reach the range check unmodified")
}

//zz: prop=C09 also=C02 tier=quick backend=bv use=ffuf,ffsign,ffrecord,g1member maxpaths=100000 budget=300
func ZZ_C09_bls12381_G2_decoder_sees_exact_coordinates() {
	b := make([]byte, G2Size)
	zzFill("b", b)
	var g G2
	if !zzSymbolic() {
		zzModelOnly() // relies on the recording stub of the field decoder: no native counterpart
	}
	ff.ZZDecoded = nil
	if g.SetBytes(b) != nil {
		return
	}
	zzReach("accepted")
	compressed := b[0]>>7 == 1
	if (b[0]>>6)&1 == 1 {
		n := G2Size
		if compressed {
			n = G2SizeCompressed
		}
		zzAssert(b[0]&0x3F == 0, "G2 infinity: no stray flag or payload bit in byte 0")
		zzAssert(zzBytesEq(b[1:n], make([]byte, n-1)), "G2 infinity: payload is zero")
		return
	}
	x := append([]byte{}, b[:ff.Fp2Size]...)
	x[0] &= 0x1F
	if compressed {
		zzAssert(len(ff.ZZDecoded) == 2, "G2 compressed: one Fp2 coordinate decoded")
		zzAssert(zzBytesEq(ff.ZZDecoded[0], x[:ff.FpSize]), "G2 compressed: x.c1 bytes reach the range check unmodified")
		zzAssert(zzBytesEq(ff.ZZDecoded[1], x[ff.FpSize:]), "G2 compressed: x.c0 bytes reach the range check unmodified")
		return
	}
	zzAssert(b[0]&0xE0 == 0, "G2 uncompressed: flag bits clear")
	zzAssert(len(ff.ZZDecoded) == 4, "G2 uncompressed: two Fp2 coordinates decoded")
	zzAssert(zzBytesEq(ff.ZZDecoded[0], x[:ff.FpSize]), "G2 uncompressed: x.c1 bytes reach the range check unmodified")
	zzAssert(zzBytesEq(ff.ZZDecoded[1], x[ff.FpSize:]), "G2 uncompressed: x.c0 bytes reach the range check unmodified")
	zzAssert(zzBytesEq(ff.ZZDecoded[2], b[ff.Fp2Size:ff.Fp2Size+ff.FpSize]), "G2 uncompressed: y.c1 bytes reach the range check unmodified")
	zzAssert(zzBytesEq(ff.ZZDecoded[3], b[ff.Fp2Size+ff.FpSize:G2Size]), "G2 uncompressed: y.c0 bytes reach the range check unmodified")
}

// scalar multiplication as an uninterpreted function of (scalar, point) (set "g1smuf"): used by the
// C11 schedule harnesses of sign/bls, which decide the key cache, not the group arithmetic

//zz:replace (*ecc/bls12381.G1).ScalarMult set=g1smuf
func zzStubG1ScalarMult(g *G1, k *Scalar, P *G1) { zzUFObj("g1.scalarmult", g, k, P) }

//zz:replace (*ecc/bls12381.G2).ScalarMult set=g1smuf
func zzStubG2ScalarMult(g *G2, k *Scalar, P *G2) { zzUFObj("g2.scalarmult", g, k, P) }

// whole point decoders as free verdicts (set "g12free"): for harnesses of the parsers above them
// (abe/cpabe/tkn20), which decide framing and length handling only

//zz:replace (*ecc/bls12381.G1).SetBytes set=g12free
func zzStubG1SetBytesFree(g *G1, b []byte) error {
	if zzFreshBool() {
		return errInputLength
	}
	zzHavoc(g)
	return nil
}

//zz:replace (*ecc/bls12381.G2).SetBytes set=g12free
func zzStubG2SetBytesFree(g *G2, b []byte) error {
	if zzFreshBool() {
		return errInputLength
	}
	zzHavoc(g)
	return nil
}

// C13/C02: conversion of a list of projective points to affine form (the first step of every
// product of pairings, hence of BLS verification): for every list of 1..3 points - coordinates
// symbolic over the small-field model GF(13), including points with z = 0 (the identity) - every
// finite point comes out as (x/z, y/z, 1), whatever the other points of the list are.  (A single
// identity in the list must not turn the other points into (0,0,1): that makes the pairing product
// 1 and lets the all-zero "identity" signature verify for every key and message.)
//
//zz: prop=C13 also=C02 tier=quick backend=bv use=fpsmall timeout=300
func ZZ_C13_bls12381_affinize_handles_identity_points() {
	if !zzSymbolic() {
		zzModelOnly() // small-field model
	}
	n := zzPick("points", 1, 2, 3)
	pts := make([]*G1, n)
	xs, ys, zs := make([]uint64, n), make([]uint64, n), make([]uint64, n)
	raw := make([]uint8, 3*n)
	zzFill("coord", raw)
	cs := []bool{}
	for i := range pts {
		xs[i], ys[i], zs[i] = uint64(raw[3*i]), uint64(raw[3*i+1]), uint64(raw[3*i+2])
		cs = append(cs, raw[3*i] < 13, raw[3*i+1] < 13, raw[3*i+2] < 13)
	}
	zzAssumeNote(zzAnd(cs...), "coordinates are elements of the model field GF(13)")
	for i := range pts {
		pts[i] = &G1{x: ff.ZZSmall(xs[i]), y: ff.ZZSmall(ys[i]), z: ff.ZZSmall(zs[i])}
	}
	out := affinize(pts)
	ok := []bool{}
	for i := range pts {
		finite := zs[i] != 0
		ox, oy, oz := ff.ZZSmallVal(&out[i].x), ff.ZZSmallVal(&out[i].y), ff.ZZSmallVal(&out[i].z)
		ok = append(ok, zzImplies(finite, zzAnd(ff.ZZSmallMul(ox, zs[i]) == xs[i], ff.ZZSmallMul(oy, zs[i]) == ys[i], oz == 1)))
	}
	zzAssert(zzAnd(ok...), "every finite point is converted to (x/z, y/z, 1) regardless of identity points elsewhere in the list")
}

// hash-to-curve and the product of pairings as free values (set "blsfree"), for the C02 harness of
// sign/bls that decides the handling of the signature string, not the pairing equation

//zz:replace (*ecc/bls12381.G1).Hash set=blsfree
func zzStubG1Hash(g *G1, input, dst []byte) { zzHavoc(g) }

//zz:replace (*ecc/bls12381.G2).Hash set=blsfree
func zzStubG2Hash(g *G2, input, dst []byte) { zzHavoc(g) }

//zz:replace ecc/bls12381.ProdPairFrac set=blsfree
func zzStubProdPairFrac(P []*G1, Q []*G2, signs []int) *Gt { g := &Gt{}; zzHavoc(g); return g }

//zz:replace (*ecc/bls12381.Gt).IsIdentity set=blsfree
func zzStubGtIsIdentity(z *Gt) bool { return zzFreshBool() }

//zz:replace (*ecc/bls12381.G1).IsOnG1 set=blsfree
func zzStubIsOnG1Free(g *G1) bool { return zzFreshBool() }

//zz:replace (*ecc/bls12381.G2).IsOnG2 set=blsfree
func zzStubIsOnG2Free(g *G2) bool { return zzFreshBool() }

//zz:replace (*ecc/bls12381.G1).IsIdentity set=blsfree
func zzStubG1IsIdentityFree(g *G1) bool { return zzFreshBool() }

//zz:replace (*ecc/bls12381.G2).IsIdentity set=blsfree
func zzStubG2IsIdentityFree(g *G2) bool { return zzFreshBool() }
