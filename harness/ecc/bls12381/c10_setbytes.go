package bls12381

// curve-level predicates as free booleans (set "g1free"): subgroup / on-curve checks are mathematics
// the harness does not decide; what is decided is that decoding never panics and honours them.

//zz:replace (*ecc/bls12381.G1).isRTorsion set=g1free
func zzStubG1RTorsion(g *G1) bool { return zzFreshBool() }

//zz:replace (*ecc/bls12381.G2).isRTorsion set=g1free
func zzStubG2RTorsion(g *G2) bool { return zzFreshBool() }

//zz:replace (*ecc/bls12381.G1).IsOnG1 set=g1member
func zzStubIsOnG1(g *G1) bool { return zzFreshBool() }

//zz:replace (*ecc/bls12381.G2).IsOnG2 set=g1member
func zzStubIsOnG2(g *G2) bool { return zzFreshBool() }

// C10: G1.SetBytes / G2.SetBytes never panic, for every length 0..98 (G1) and 0..194 (G2)
//
//zz: prop=C10 tier=quick backend=bv use=ffuf,ffsign,ffrange,g1member maxpaths=100000 budget=300
func ZZ_C10_bls12381_G1_SetBytes() {
	n := zzPick("len", 0, 1, 47, 48, 49, 95, 96, 97)
	b := make([]byte, n)
	zzFill("b", b)
	var g G1
	_ = g.SetBytes(b)
}

//zz: prop=C10 tier=quick backend=bv use=ffuf,ffsign,ffrange,g1member maxpaths=100000 budget=300
func ZZ_C10_bls12381_G2_SetBytes() {
	n := zzPick("len", 0, 1, 95, 96, 97, 191, 192, 193)
	b := make([]byte, n)
	zzFill("b", b)
	var g G2
	_ = g.SetBytes(b)
}

// C09: at the exact encoded lengths of the compressed formats (48 for G1, 96 for G2) an accepted
// input carries the compression flag: an uncompressed encoding cut to half its size is refused. (The
// decoders are prefix decoders: bytes after a complete encoding are ignored, and the repository's own
// TestG1Serial/TestG2Serial "badLength" cases pin that; C09 quantifies over strings of the exact
// encoded length, so trailing bytes are outside it. An earlier version of this harness demanded
// rejection of trailing bytes, which was more than the property states; see DESIGN.md 0.4.)
//
//zz: prop=C09 tier=quick backend=bv use=ffuf,ffsign,ffrange,g1member maxpaths=100000 budget=300
func ZZ_C09_bls12381_SetBytes_length_vs_flag() {
	if zzPick("group", 1, 2) == 1 {
		b := make([]byte, G1SizeCompressed)
		zzFill("b", b)
		var g G1
		if g.SetBytes(b) == nil {
			zzAssert(b[0]>>7 == 1, "G1: a 48-byte input is accepted only as a compressed encoding")
		}
	} else {
		b := make([]byte, G2SizeCompressed)
		zzFill("b", b)
		var g G2
		if g.SetBytes(b) == nil {
			zzAssert(b[0]>>7 == 1, "G2: a 96-byte input is accepted only as a compressed encoding")
		}
	}
}
