package ff

// BLS12-381 base-field Montgomery kernels as uninterpreted functions (set "ffuf"): the
// decoding logic above them (flag bytes, range checks, membership-test plumbing) is what the
// C09/C10 harnesses decide; the kernels themselves are C12.

//zz:replace ecc/bls12381/ff.fiatFpMontMul set=ffuf
func zzStubFpMul(out, a, b *[6]uint64) { copy(out[:], zzUF64("fp381.mul", 6, a[:], b[:])) }

//zz:replace ecc/bls12381/ff.fiatFpMontSquare set=ffuf
func zzStubFpSqr(out, a *[6]uint64) { copy(out[:], zzUF64("fp381.mul", 6, a[:], a[:])) }

//zz:replace ecc/bls12381/ff.fiatFpMontAdd set=ffuf
func zzStubFpAdd(out, a, b *[6]uint64) { copy(out[:], zzUF64("fp381.add", 6, a[:], b[:])) }

//zz:replace ecc/bls12381/ff.fiatFpMontSub set=ffuf
func zzStubFpSub(out, a, b *[6]uint64) { copy(out[:], zzUF64("fp381.sub", 6, a[:], b[:])) }

//zz:replace (*ecc/bls12381/ff.Fp).ExpVarTime set=ffuf
func zzStubFpExp(z *Fp, x *Fp, n []byte) { copy(z.i[:], zzUF64("fp381.exp", 6, x.i[:])) }

//zz:replace (*ecc/bls12381/ff.Fp).Inv set=ffuf
func zzStubFpInv(z *Fp, x *Fp) { copy(z.i[:], zzUF64("fp381.inv", 6, x.i[:])) }

// sign / square-root predicates as free values (set "ffsign"): used by harnesses that only decide
// panic-freedom and flag-byte logic.

//zz:replace (ecc/bls12381/ff.Fp).IsNegative set=ffsign
func zzStubFpIsNeg(z Fp) int {
	if zzFreshBool() {
		return 1
	}
	return 0
}

//zz:replace (ecc/bls12381/ff.Fp2).IsNegative set=ffsign
func zzStubFp2IsNeg(z Fp2) int {
	if zzFreshBool() {
		return 1
	}
	return 0
}

//zz:replace (*ecc/bls12381/ff.Fp).Sqrt set=ffsign
func zzStubFpSqrt(z *Fp, x *Fp) int {
	if zzFreshBool() {
		copy(z.i[:], zzUF64("fp381.sqrt", 6, x.i[:]))
		return 1
	}
	return 0
}

//zz:replace (*ecc/bls12381/ff.Fp2).Sqrt set=ffsign
func zzStubFp2Sqrt(z *Fp2, x *Fp2) int {
	if zzFreshBool() {
		copy(z[0].i[:], zzUF64("fp381.sqrt2a", 6, x[0].i[:], x[1].i[:]))
		copy(z[1].i[:], zzUF64("fp381.sqrt2b", 6, x[0].i[:], x[1].i[:]))
		return 1
	}
	return 0
}

// range check of a field element as a free verdict (set "ffrange"): cuts the early-exit byte loop
// of isLessThan for harnesses that do not decide canonicity.

//zz:replace ecc/bls12381/ff.setBytesBounded set=ffrange
func zzStubSetBytesBounded(in []byte, order []byte) ([]uint64, error) {
	if zzFreshBool() {
		return nil, errInputRange
	}
	return zzUF64("fp381.frombytes", len(in)/8, zzBytesToWords(in)), nil
}

func zzBytesToWords(in []byte) []uint64 {
	out := make([]uint64, (len(in)+7)/8)
	for i, b := range in {
		out[i/8] |= uint64(b) << (8 * uint(i%8))
	}
	return out
}

// recording variant of the range check (set "ffrecord"): the byte strings handed to the field
// decoder are kept, so that a harness can decide that the point decoders pass exactly the
// coordinate bytes of the input (flag bits of the first byte cleared, nothing else touched).

var ZZDecoded [][]byte

//zz:replace ecc/bls12381/ff.setBytesBounded set=ffrecord
func zzStubSetBytesBoundedRec(in []byte, order []byte) ([]uint64, error) {
	ZZDecoded = append(ZZDecoded, append([]byte{}, in...))
	if zzFreshBool() {
		return nil, errInputRange
	}
	return zzUF64("fp381.frombytes", len(in)/8, zzBytesToWords(in)), nil
}

// Small-field model (set "fpsmall"): code that is generic in the field - batch inversion, affine
// conversion - is run over GF(13) instead of the 381-bit prime (modular multiplication over larger fields stalls the bit-blasting back ends; the code under test never looks at the modulus): an element is its value in limb 0,
// multiplication is (x*y) mod 13, Inv returns the inverse (0 for 0, as the real Inv does), so the
// solver decides the algebra for every choice of coordinates, including zero denominators.

const zzSmallP = 13

func ZZSmall(v uint64) Fp       { var z Fp; z.i[0] = v; return z }
func ZZSmallVal(z *Fp) uint64   { return z.i[0] }
// products of two values below 13 fit 8 bits: narrow arithmetic keeps the queries easy
func ZZSmallMul(x, y uint64) uint64 { return uint64((uint8(x) * uint8(y)) % zzSmallP) }

//zz:replace (*ecc/bls12381/ff.Fp).Mul set=fpsmall
func zzSmallFpMul(z, x, y *Fp) { v := ZZSmallMul(x.i[0], y.i[0]); z.i = fpMont{}; z.i[0] = v }

//zz:replace (*ecc/bls12381/ff.Fp).SetOne set=fpsmall
func zzSmallFpSetOne(z *Fp) { z.i = fpMont{}; z.i[0] = 1 }

//zz:replace (*ecc/bls12381/ff.Fp).SetUint64 set=fpsmall
func zzSmallFpSetUint64(z *Fp, n uint64) { z.i = fpMont{}; z.i[0] = n % zzSmallP }

//zz:replace (ecc/bls12381/ff.Fp).IsZero set=fpsmall
func zzSmallFpIsZero(z Fp) int {
	if z.i[0] == 0 {
		return 1
	}
	return 0
}

//zz:replace (*ecc/bls12381/ff.Fp).Inv set=fpsmall
func zzSmallFpInv(z *Fp, x *Fp) {
	v := x.i[0]
	r := zzFreshU64()
	zzAssume(zzAnd2(r < zzSmallP, zzOr2(zzAnd2(v == 0, r == 0), zzAnd2(v != 0, ZZSmallMul(r, v) == 1))))
	z.i = fpMont{}
	z.i[0] = r
}
