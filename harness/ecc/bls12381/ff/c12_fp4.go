package ff

// C12/C11: Fp4.Inv (the Fp12-cubic tower) depends only on its argument: the result is the same for
// a zero receiver, a receiver holding arbitrary previous contents, and a receiver aliasing the
// argument (patterns z = x).  Base-field kernels are uninterpreted functions (set "ffuf").

//zz: prop=C12 also=C11 tier=quick backend=bv use=ffuf timeout=300
func ZZ_C12_bls12381_Fp4_Inv_independent_of_receiver() {
	if !zzSymbolic() {
		zzModelOnly()
	}
	var x, fresh, dirty Fp4
	zzFill("x", &x)
	zzFill("previous", &dirty)
	fresh.Inv(&x)
	dirty.Inv(&x)
	zzAssert(fresh == dirty, "Inv into a used receiver = Inv into a zero receiver")
	alias := x
	alias.Inv(&alias)
	zzAssert(fresh == alias, "Inv with the receiver aliasing the argument = Inv into a zero receiver")
}

// C12/C11, the same question for the whole extension tower: every binary and unary arithmetic method
// of Fp2, Fp4, Fp6, Fp12 and Fp12Cubic gives the same result whether its receiver is fresh, holds
// previous contents, or aliases an operand (z = x, z = y, x = y).  Base-field kernels uninterpreted.


func zzAliasBinary[T comparable](name string, op func(z, x, y *T)) {
	var x, y, fresh, dirty T
	zzFill("x", &x)
	zzFill("y", &y)
	zzFill("previous", &dirty)
	op(&fresh, &x, &y)
	op(&dirty, &x, &y)
	zzAssert(fresh == dirty, name+": result independent of the receiver's previous contents")
	zx := x
	op(&zx, &zx, &y)
	zzAssert(fresh == zx, name+": z = x")
	zy := y
	op(&zy, &x, &zy)
	zzAssert(fresh == zy, name+": z = y")
}

func zzAliasUnary[T comparable](name string, op func(z, x *T)) {
	var x, fresh, dirty T
	zzFill("x", &x)
	zzFill("previous", &dirty)
	op(&fresh, &x)
	op(&dirty, &x)
	zzAssert(fresh == dirty, name+": result independent of the receiver's previous contents")
	zx := x
	op(&zx, &zx)
	zzAssert(fresh == zx, name+": z = x")
}

//zz: prop=C12 also=C11 tier=quick backend=bv use=ffuf timeout=600 budget=1200
func ZZ_C12_bls12381_tower_operations_alias_safe() {
	if !zzSymbolic() {
		zzModelOnly()
	}
	switch zzPick("operation", 0, 1, 2, 3, 4, 5, 6, 7, 8, 9, 10, 11, 12, 13, 14) {
	case 0:
		zzAliasBinary("Fp2.Mul", func(z, x, y *Fp2) { z.Mul(x, y) })
	case 1:
		zzAliasUnary("Fp2.Sqr", func(z, x *Fp2) { z.Sqr(x) })
	case 2:
		zzAliasUnary("Fp2.Inv", func(z, x *Fp2) { z.Inv(x) })
	case 3:
		zzAliasBinary("Fp4.Mul", func(z, x, y *Fp4) { z.Mul(x, y) })
	case 4:
		zzAliasUnary("Fp4.Sqr", func(z, x *Fp4) { z.Sqr(x) })
	case 5:
		zzAliasBinary("Fp6.Mul", func(z, x, y *Fp6) { z.Mul(x, y) })
	case 6:
		zzAliasUnary("Fp6.Sqr", func(z, x *Fp6) { z.Sqr(x) })
	case 7:
		zzAliasUnary("Fp6.Inv", func(z, x *Fp6) { z.Inv(x) })
	case 8:
		zzAliasUnary("Fp6.Frob", func(z, x *Fp6) { z.Frob(x) })
	case 9:
		zzAliasBinary("Fp12.Mul", func(z, x, y *Fp12) { z.Mul(x, y) })
	case 10:
		zzAliasUnary("Fp12.Sqr", func(z, x *Fp12) { z.Sqr(x) })
	case 11:
		zzAliasUnary("Fp12.Inv", func(z, x *Fp12) { z.Inv(x) })
	case 12:
		zzAliasUnary("Fp12.Frob", func(z, x *Fp12) { z.Frob(x) })
	case 13:
		zzAliasBinary("Fp12Cubic.Mul", func(z, x, y *Fp12Cubic) { z.Mul(x, y) })
	case 14:
		zzAliasUnary("Fp12Cubic.Sqr", func(z, x *Fp12Cubic) { z.Sqr(x) })
	}
}
