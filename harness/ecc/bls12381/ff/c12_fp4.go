package ff

// C12/C11: Fp4.Inv (the Fp12-cubic tower) depends only on its argument: the result is the same for
// a zero receiver, a receiver holding arbitrary previous contents, and a receiver aliasing the
// argument (patterns z = x).  Base-field kernels are uninterpreted functions (set "ffuf").

//zz: prop=C12 also=C11 tier=quick backend=bv use=ffuf timeout=300
func ZZ_C12_bls12381_Fp4_Inv_independent_of_receiver() {
	if !zzSymbolic() {
		zzModelOnly()
	}
	var x, fresh, dirty Fp4
	zzFill("x", &x)
	zzFill("previous", &dirty)
	fresh.Inv(&x)
	dirty.Inv(&x)
	zzAssert(fresh == dirty, "Inv into a used receiver = Inv into a zero receiver")
	alias := x
	alias.Inv(&alias)
	zzAssert(fresh == alias, "Inv with the receiver aliasing the argument = Inv into a zero receiver")
}
