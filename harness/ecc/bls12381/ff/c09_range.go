package ff

// C09/C10: the canonical-range check of BLS12-381 field and scalar decoding, for every 48-byte
// (Fp) and 32-byte (scalar) string: never panics - also when the input equals the modulus byte for
// byte - and accepts exactly the integers below the modulus, so that values p, p+1, ... and r, r+1, ...
// are refused.  Real byte loop (big-endian compare with early exit), all input bytes symbolic.

const (
	zzFpOrder = "0x1a0111ea397fe69a4b1ba7b6434bacd764774b84f38512bf6730d2a0f6b0f6241eabfffeb153ffffb9feffffffffaaab"
	zzScOrder = "0x73eda753299d7d483339d80809a1d80553bda402fffe5bfeffffffff00000001"
)

//zz: prop=C09 also=C10 tier=quick backend=bv timeout=300 maxpaths=4000
func ZZ_C09_bls12381_ff_range_check_is_integer_comparison() {
	if zzPick("field", 0, 1) == 0 {
		in := make([]byte, FpSize)
		zzFill("in", in)
		_, err := setBytesBounded(in, fpOrder[:])
		zzAssert(zzIff(err == nil, zzWLt(zzWBE(in), zzWConst(zzFpOrder))), "Fp: accepted iff the big-endian integer is below p")
	} else {
		in := make([]byte, ScalarSize)
		zzFill("in", in)
		o := ScalarOrder()
		_, err := setBytesBounded(in, o)
		zzAssert(zzIff(err == nil, zzWLt(zzWBE(in), zzWConst(zzScOrder))), "scalar: accepted iff the big-endian integer is below r")
	}
}
