package goldilocks

// C05/C12: Goldilocks (Ed448) scalar arithmetic equals integer arithmetic modulo the group
// order for every 56-byte operand, and results are canonical (< order).

const zzOrder = "0x3fffffffffffffffffffffffffffffffffffffffffffffffffffffff7cca23e9c44edb49aed63690216cc2728dc58f552378c292ab5844f3"

func zzScalar(name string) *Scalar {
	s := new(Scalar)
	zzFillLimbs(name, s[:])
	return s
}

//zz: prop=C12 tier=quick backend=lia timeout=120
func ZZ_C12_goldilocks_scalar_Red() {
	z := zzScalar("z")
	v := zzWLE(z[:])
	z.Red()
	r := zzWLE(z[:])
	zzAssert(zzWCong(r, v, zzOrder), "Red congruent")
	zzAssert(zzWLt(r, zzWConst(zzOrder)), "Red canonical (< order)")
}

//zz: prop=C12 tier=quick backend=lia timeout=120
func ZZ_C12_goldilocks_scalar_IsZero() {
	z := zzScalar("z")
	v := zzWLE(z[:])
	zzAssert(zzIff(z.IsZero(), zzWEq(zzWMod(v, zzOrder), zzWConst("0"))), "IsZero iff z = 0 mod order")
}

//zz: prop=C12 tier=quick backend=lia timeout=120
func ZZ_C12_goldilocks_scalar_Add() {
	x, y := zzScalar("x"), zzScalar("y")
	want := zzWAdd(zzWLE(x[:]), zzWLE(y[:]))
	var z Scalar
	z.Add(x, y)
	r := zzWLE(z[:])
	zzAssert(zzWCong(r, want, zzOrder), "Add congruent")
	zzAssert(zzWLt(r, zzWConst(zzOrder)), "Add canonical")
}

//zz: prop=C12 tier=quick backend=lia timeout=120
func ZZ_C12_goldilocks_scalar_Sub() {
	x, y := zzScalar("x"), zzScalar("y")
	want := zzWSub(zzWLE(x[:]), zzWLE(y[:]))
	var z Scalar
	z.Sub(x, y)
	r := zzWLE(z[:])
	zzAssert(zzWCong(r, want, zzOrder), "Sub congruent")
	zzAssert(zzWLt(r, zzWConst(zzOrder)), "Sub canonical")
}

//zz: prop=C12 tier=quick backend=lia timeout=120
func ZZ_C12_goldilocks_scalar_Neg() {
	x := zzScalar("x")
	v := zzWLE(x[:])
	x.Neg()
	r := zzWLE(x[:])
	zzAssert(zzWCong(zzWAdd(r, v), zzWConst("0"), zzOrder), "Neg: z + x = 0 mod order")
	zzAssert(zzWLt(r, zzWConst(zzOrder)), "Neg canonical")
}

//zz: prop=C12 tier=deep backend=lia timeout=1500 budget=3600
func ZZ_C12_goldilocks_scalar_Mul() {
	x, y := zzScalar("x"), zzScalar("y")
	want := zzWMulLimbs(x[:], y[:])
	var z Scalar
	z.Mul(x, y)
	r := zzWLE(z[:])
	zzAssert(zzWCong(r, want, zzOrder), "Mul congruent")
	zzAssert(zzWLt(r, zzWConst(zzOrder)), "Mul canonical")
}

// FromBytes: z = x mod order for byte strings of 0..114 bytes (Ed448 hashes are 114 bytes)
//
//zz: prop=C12 tier=deep backend=lia timeout=1500 budget=3600
func ZZ_C12_goldilocks_scalar_FromBytes_114() { zzFromBytesCheck(114) }

//zz: prop=C12 also=C05 tier=quick backend=lia timeout=300
func ZZ_C12_goldilocks_scalar_FromBytes() {
	zzFromBytesCheck(zzPick("n", 0, 1, 55, 56, 57, 64))
}

func zzFromBytesCheck(n int) {
	x := make([]byte, n)
	zzFill("x", x)
	var z Scalar
	z.FromBytes(x)
	r := zzWLE(z[:])
	zzAssert(zzWCong(r, zzWLE(x), zzOrder), "FromBytes congruent")
	if n >= 56 {
		zzAssert(zzWLt(r, zzWConst(zzOrder)), "FromBytes canonical")
	}
}

// Lemmas from which Mul / FromBytes are composed (each from an arbitrary state).

// mulWord: z = x*y exactly (8 limbs)
//
//zz: prop=C12 also=C05 tier=quick backend=lia timeout=300
func ZZ_C12_goldilocks_scalar_mulWord() {
	var x scalar64
	zzFill("x", &x)
	y := zzU64("y")
	prod := make([]uint64, _N+1)
	zzFill("stale", prod)
	mulWord(prod, x[:], y)
	ys := []uint64{y}
	zzAssert(zzWEq(zzWLE64(prod), zzWMulLimbs64(x[:], ys)), "mulWord: z = x*y")
}

// reduceOneWord: z' ≡ z + 2^448*x (mod order) and the result fits in 448 bits (no carry lost)
//
//zz: prop=C12 also=C05,C13 tier=quick backend=lia timeout=300
func ZZ_C12_goldilocks_scalar_reduceOneWord() {
	var z scalar64
	zzFill("z", &z)
	x := zzU64("x")
	want := zzWAdd(zzWLE64(z[:]), zzWMulC(zzWU(x), "0x10000000000000000000000000000000000000000000000000000000000000000000000000000000000000000000000000000000000000000"))
	z.reduceOneWord(x)
	zzAssert(zzWCong(zzWLE64(z[:]), want, zzOrder), "reduceOneWord: z' ≡ z + 2^448 x (mod order)")
}

// leftShift: (high, z') with high*2^448 + z' = z*2^64 + low
//
//zz: prop=C12 also=C05 tier=quick backend=lia timeout=300
func ZZ_C12_goldilocks_scalar_leftShift() {
	var z scalar64
	zzFill("z", &z)
	low := zzU64("low")
	want := zzWAdd(zzWMulC(zzWLE64(z[:]), "0x10000000000000000"), zzWU(low))
	high := z.leftShift(low)
	got := zzWAdd(zzWLE64(z[:]), zzWMulC(zzWU(high), "0x10000000000000000000000000000000000000000000000000000000000000000000000000000000000000000000000000000000000000000"))
	zzAssert(zzWEq(got, want), "leftShift: high*2^448 + z' = z*2^64 + low")
}

// C11: decoding into a previously used scalar gives the same result as decoding into a fresh one
//
//zz: prop=C11 tier=quick backend=bv timeout=120
func ZZ_C11_goldilocks_Scalar_FromBytes_into_used() {
	n := zzPick("n", 0, 1, 3, 8, 47, 48, 49, 55, 56, 57, 64)
	x := make([]byte, n)
	zzFill("x", x)
	var used, fresh Scalar
	zzFill("previous", &used)
	used.FromBytes(x)
	fresh.FromBytes(x)
	zzAssert(used == fresh, "FromBytes into a used scalar = FromBytes into a fresh scalar")
}
