package goldilocks

// C10: goldilocks point decoding never panics, for every input length 0..60 and all bytes.
//
//zz: prop=C10 tier=quick backend=bv use=fpuf
func ZZ_C10_goldilocks_FromBytes() {
	n := zzLen("inlen", zzT(56, 40), zzT(58, 70))
	in := make([]byte, n)
	zzFill("in", in)
	_, _ = FromBytes(in)
}

//zz: prop=C10 tier=quick backend=bv use=fpuf
func ZZ_C10_goldilocks_Point_UnmarshalBinary() {
	n := zzLen("inlen", zzT(56, 40), zzT(58, 70))
	in := make([]byte, n)
	zzFill("in", in)
	var P Point
	_ = P.UnmarshalBinary(in)
}
