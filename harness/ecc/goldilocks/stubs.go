package goldilocks

import fp "github.com/cloudflare/circl/math/fp448"

// Field arithmetic of GF(2^448-2^224-1) as uninterpreted functions (set "fpuf"): the byte-level
// decoding logic around it is what the C05/C09/C10 harnesses decide; the kernels themselves are C12.

//zz:replace math/fp448.Mul set=fpuf
func zzStubMul(z, x, y *fp.Elt) { copy(z[:], zzUF("fp448.mul", fp.Size, x[:], y[:])) }

//zz:replace math/fp448.Sqr set=fpuf
func zzStubSqr(z, x *fp.Elt) { copy(z[:], zzUF("fp448.mul", fp.Size, x[:], x[:])) }

//zz:replace math/fp448.Add set=fpuf
func zzStubAdd(z, x, y *fp.Elt) { copy(z[:], zzUF("fp448.add", fp.Size, x[:], y[:])) }

//zz:replace math/fp448.Sub set=fpuf
func zzStubSub(z, x, y *fp.Elt) { copy(z[:], zzUF("fp448.sub", fp.Size, x[:], y[:])) }

//zz:replace math/fp448.Neg set=fpuf
func zzStubNeg(z, x *fp.Elt) { copy(z[:], zzUF("fp448.neg", fp.Size, x[:])) }

//zz:replace math/fp448.Modp set=fpuf
func zzStubModp(z *fp.Elt) { copy(z[:], zzUF("fp448.modp", fp.Size, z[:])) }

//zz:replace math/fp448.IsZero set=fpuf
func zzStubIsZero(x *fp.Elt) bool {
	zzStubModp(x)
	return *x == fp.Elt{}
}

//zz:replace math/fp448.InvSqrt set=fpuf
func zzStubInvSqrt(z, x, y *fp.Elt) bool {
	copy(z[:], zzUF("fp448.invsqrt", fp.Size, x[:], y[:]))
	return zzUFBool("fp448.isqr", x[:], y[:])
}

//zz:replace math/fp448.Inv set=fpuf
func zzStubInv(z, x *fp.Elt) { copy(z[:], zzUF("fp448.inv", fp.Size, x[:])) }
