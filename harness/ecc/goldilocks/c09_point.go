package goldilocks

// C09: a decoded Ed448 point re-serialises to exactly the parsed bytes: unused bits and
// trailing bytes make the decoder refuse.  The y-coordinate is the generator's (concrete, so the
// real field code runs and the counterexample replays); the last byte and appended bytes are symbolic.
//
//zz: prop=C09 tier=quick backend=bv timeout=120
func ZZ_C09_goldilocks_FromBytes_canonical() {
	var enc [57]byte
	G := Curve{}.Generator()
	if err := G.ToBytes(enc[:]); err != nil {
		panic("generator does not encode")
	}
	extra := zzPick("extra", 0, 1, 8)
	in := make([]byte, 57+extra)
	copy(in, enc[:])
	last := zzU8("lastbyte")
	in[56] = last
	if extra > 0 {
		zzFill("junk", in[57:])
	}
	P, err := FromBytes(in)
	if err == nil {
		var out [57]byte
		zzAssert(P.ToBytes(out[:]) == nil, "decoded point encodes")
		zzAssert(len(in) == 57 && zzBytesEq(out[:], in), "accepted input re-serialises to exactly the parsed bytes")
	}
}

// the y-coordinate range check of FromBytes equals integer comparison with p, for every 56-byte
// string (so y = p, p+1, ... are refused: their re-encoding would differ from the input)
//
//zz: prop=C09 tier=quick backend=lia timeout=120
func ZZ_C09_goldilocks_isLessThan_p() {
	y := make([]byte, 56)
	zzFill("y", y)
	p := [56]byte{}
	for i := range p {
		p[i] = 0xff
	}
	p[28] = 0xfe
	zzAssert(zzIff(isLessThan(y, p[:]), zzWLt(zzWLE(y), zzWConst("0xfffffffffffffffffffffffffffffffffffffffffffffffffffffffeffffffffffffffffffffffffffffffffffffffffffffffffffffffff"))), "isLessThan(y, p) iff y < p")
}

//zz: prop=C05 tier=quick backend=lia timeout=120
func ZZ_C05_goldilocks_isLessThan_p() { ZZ_C09_goldilocks_isLessThan_p() }
