package goldilocks

// C11: the exported scalar multiplications leave their scalar (and point) operands unchanged, for
// every scalar.  The twisted-curve routines they call are known to work destructively on the
// scalar they are given (twist.go ScalarMult recodes k in place); here they are replaced by stubs
// that overwrite every operand with arbitrary values (set "twistmut"), so the harness decides
// exactly that the exported wrappers only ever hand them private copies.  Scalar.Mul (divBy4) is
// an uninterpreted function in this harness.

//zz:replace (ecc/goldilocks.twistCurve).ScalarMult set=twistmut
func zzStubTwistScalarMult(e twistCurve, k *Scalar, P *twistPoint) *twistPoint {
	zzHavoc(k)
	zzHavoc(P)
	return &twistPoint{}
}

//zz:replace (ecc/goldilocks.twistCurve).ScalarBaseMult set=twistmut
func zzStubTwistScalarBaseMult(e twistCurve, k *Scalar) *twistPoint {
	zzHavoc(k)
	return &twistPoint{}
}

//zz:replace (ecc/goldilocks.twistCurve).CombinedMult set=twistmut
func zzStubTwistCombinedMult(e twistCurve, m, n *Scalar, P *twistPoint) *twistPoint {
	zzHavoc(m)
	zzHavoc(n)
	zzHavoc(P)
	return &twistPoint{}
}

//zz:replace (ecc/goldilocks.Curve).push set=twistmut
func zzStubPush(e Curve, P *Point) *twistPoint { return &twistPoint{} }

//zz:replace (ecc/goldilocks.twistCurve).push set=twistmut
func zzStubTwistPush(e twistCurve, P *twistPoint) *Point { return &Point{} }

//zz:replace (*ecc/goldilocks.Scalar).Mul set=twistmut
func zzStubScalarMul(z *Scalar, x, y *Scalar) { zzUFObj("goldilocks.scalar.mul", z, x, y) }

//zz: prop=C11 tier=quick backend=bv use=twistmut timeout=120
func ZZ_C11_goldilocks_scalar_mult_leaves_operands_unchanged() {
	if !zzSymbolic() {
		zzModelOnly() // the twisted-curve routines are destructive stubs here
	}
	var k, m Scalar
	var P Point
	zzFill("k", &k)
	zzFill("m", &m)
	zzFill("P", &P)
	k0, m0, P0 := k, m, P
	switch zzPick("call", 0, 1, 2) {
	case 0:
		_ = Curve{}.ScalarMult(&k, &P)
	case 1:
		_ = Curve{}.ScalarBaseMult(&k)
	case 2:
		_ = Curve{}.CombinedMult(&m, &k, &P)
	}
	zzAssert(k == k0 && m == m0, "scalar operands unchanged")
	zzAssert(zzSame(&P, &P0), "point operand unchanged")
}
