package goldilocks

import fp "github.com/cloudflare/circl/math/fp448"

// C09/C05: Ed448-Goldilocks point decoding (RFC 8032 5.2.3) for every 57-byte string and whatever
// the square-root routine returns (set "sqrtfree448"): an accepted encoding has no unused bit set,
// the masked y is what the range check sees, the decoded x is +-root and its reduced value has
// exactly the encoded sign (x = 0 with the sign bit set refused), so it re-serialises to the input.

var zzRoot448 fp.Elt

//zz:replace math/fp448.InvSqrt set=sqrtfree448
func zzStubInvSqrtFree(z, x, y *fp.Elt) bool {
	zzHavoc(z)
	zzRoot448 = *z
	return zzFreshBool()
}

var zzLtX448, zzLtY448 []byte

//zz:replace ecc/goldilocks.isLessThan set=ltfree448
func zzStubIsLessThanFree(x, y []byte) bool {
	zzLtX448, zzLtY448 = append([]byte{}, x...), append([]byte{}, y...)
	return zzFreshBool()
}

// function-boundary summary of fp448.Modp (set "modp448contract"): the result is some canonical
// representative of the argument; that the real Modp meets this contract for every input is decided
// by ZZ_C12_fp448_modp_iszero_tobytes.

//zz:replace math/fp448.Modp set=modp448contract
func zzStubModpContract(z *fp.Elt) {
	v := zzWLE(z[:])
	zzHavoc(z)
	r := zzWLE(z[:])
	zzAssumeNote(zzAnd2(zzWLt(r, zzWConst(zzP448)), zzWCong(r, v, zzP448)), "summary: fp448.Modp returns the canonical representative (decided separately by ZZ_C12_fp448_modp_iszero_tobytes)")
}

const zzP448 = "0xfffffffffffffffffffffffffffffffffffffffffffffffffffffffeffffffffffffffffffffffffffffffffffffffffffffffffffffffff"

//zz: prop=C09 also=C05 tier=quick backend=lia use=sqrtfree448,ltfree448,modp448contract timeout=600 maxpaths=4000
func ZZ_C09_goldilocks_point_decoding_sign_rule() {
	if !zzSymbolic() {
		zzModelOnly() // the square root is a free value here: no native counterpart
	}
	k := make([]byte, fp.Size+1)
	zzFill("k", k)
	P, err := FromBytes(k)
	if err != nil {
		return
	}
	zzReach("accepted")
	signX := k[fp.Size] >> 7
	zzAssert(k[fp.Size]&0x7f == 0, "unused bits of the last byte are zero")
	pp := fp.P()
	zzAssert(zzAnd2(zzBytesEq(zzLtX448, k[:fp.Size]), zzBytesEq(zzLtY448, pp[:])), "the range check compares y with p")
	zzAssert(zzBytesEq(P.y[:], k[:fp.Size]), "decoded y = encoded y")
	x := zzWLE(P.x[:])
	root := zzWLE(zzRoot448[:])
	zzAssert(zzOr2(zzWCong(x, root, zzP448), zzWCong(zzWAdd(x, root), zzWConst("0"), zzP448)), "decoded x = +-root mod p")
	// x < 2^448 < 2p, so x mod p = x - p if x >= p, else x
	r := zzWIte(zzWLt(x, zzWConst(zzP448)), x, zzWSub(x, zzWConst(zzP448)))
	zzAssert(zzWEq(zzWMod(r, "2"), zzWU(uint64(signX))), "sign of the reduced decoded x = encoded sign bit (x = 0 with sign 1 refused)")
}
