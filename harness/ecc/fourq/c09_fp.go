package fourq

// C09: FourQ field-element decoding is canonical: an accepted 16-byte (Fp) / 32-byte (Fq) string
// re-serialises to exactly the parsed bytes, i.e. the values p = 2^127-1 (an alias of 0) and
// anything with bit 127 set are refused.  Every byte string; portable field code.

//zz: prop=C09 tier=quick backend=bv timeout=120
func ZZ_C09_fourq_Fp_fromBytes_canonical() {
	buf := make([]byte, SizeFp)
	zzFill("buf", buf)
	var f Fp
	if !f.fromBytes(buf) {
		return
	}
	zzReach("accepted")
	out := make([]byte, SizeFp)
	f.toBytes(out)
	zzAssert(zzBytesEq(out, buf), "accepted Fp encoding re-serialises to the parsed bytes")
}

//zz: prop=C09 tier=quick backend=bv timeout=120
func ZZ_C09_fourq_Fq_fromBytes_canonical() {
	buf := make([]byte, 2*SizeFp)
	zzFill("buf", buf)
	var f Fq
	if !f.fromBytes(buf) {
		return
	}
	zzReach("accepted")
	out := make([]byte, 2*SizeFp)
	f.toBytes(out)
	zzAssert(zzBytesEq(out, buf), "accepted Fq encoding re-serialises to the parsed bytes")
}
