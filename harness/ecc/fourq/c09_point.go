package fourq

// C09: FourQ point decoding for every 32-byte string and for whatever root the square-root routine
// returns within its contract (set "sqrtcontract": fqSqrt yields an arbitrary element of GF(p^2) whose
// sign is the requested one unless the element is zero - the arithmetic of the root itself is field
// arithmetic, C12) and whatever the curve-membership test answers (free verdict): an accepted
// encoding re-serialises to exactly the parsed bytes.  In particular y = +-1 (x = 0) with the sign
// bit set is refused: x = 0 has no negative form, Marshal writes its sign bit as 0.

//zz:replace ecc/fourq.fqSqrt set=sqrtcontract
func zzStubFqSqrt(c, u, v *Fq, s int) {
	zzHavoc(c)
	zzAssumeNote(zzAnd2(c[0][SizeFp-1]>>7 == 0, c[1][SizeFp-1]>>7 == 0), "field routines return values below 2^127")
	cc := *c
	zzAssumeNote(zzOr2(fqSgn(&cc) == s, cc.isZero()), "contract of fqSqrt: the root has the requested sign unless it is zero")
}

//zz:replace (*ecc/fourq.Point).IsOnCurve set=sqrtcontract
func zzStubIsOnCurve(P *Point) bool { return zzFreshBool() }

//zz: prop=C09 tier=quick backend=bv use=sqrtcontract timeout=300
func ZZ_C09_fourq_point_decoding_is_canonical() {
	if !zzSymbolic() {
		zzModelOnly() // the square root is a free value here: no native counterpart
	}
	var in, in0, out [Size]byte
	zzFill("in", in[:])
	in0 = in
	var P Point
	if !P.Unmarshal(&in) {
		return
	}
	zzReach("accepted")
	zzAssert(in == in0, "the input buffer is unchanged")
	P.Marshal(&out)
	zzAssert(out == in0, "an accepted point encoding re-serialises to the parsed bytes (x = 0 with the sign bit set is refused)")
}
