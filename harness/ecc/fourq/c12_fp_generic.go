package fourq

import "encoding/binary"

// C12 / C14 (fourq, portable back end): the generic GF(2^127-1) addition, subtraction and
// multiplication return a value congruent to the exact result and below 2^127 (bit 127 clear - the
// representation every other routine and the amd64 assembly assume), for all operands below 2^127.
// LIA back end: 64x64 products are abstracted, compared limb-wise with the schoolbook product.

const zzP127 = "0x7fffffffffffffffffffffffffffffff"

func zzFpWords(name string) (*Fp, []uint64) {
	var f Fp
	zzFill(name, &f)
	zzAssumeNote(f[15]&0x80 == 0, "operands are below 2^127 (representation invariant of Fp)")
	return &f, []uint64{binary.LittleEndian.Uint64(f[0:8]), binary.LittleEndian.Uint64(f[8:16])}
}

func zzFpOut(f *Fp) []uint64 {
	return []uint64{binary.LittleEndian.Uint64(f[0:8]), binary.LittleEndian.Uint64(f[8:16])}
}

//zz: prop=C12 also=C14 tier=quick backend=lia timeout=300
func ZZ_C12_fourq_fpAddSubGeneric() {
	a, aw := zzFpWords("a")
	b, bw := zzFpWords("b")
	var s, d Fp
	fpAddGeneric(&s, a, b)
	fpSubGeneric(&d, a, b)
	zzAssert(zzWCong(zzWLE64(zzFpOut(&s)), zzWAdd(zzWLE64(aw), zzWLE64(bw)), zzP127), "add congruent to a+b")
	zzAssert(s[15]&0x80 == 0, "add result below 2^127")
	zzAssert(zzWCong(zzWLE64(zzFpOut(&d)), zzWSub(zzWLE64(aw), zzWLE64(bw)), zzP127), "sub congruent to a-b")
	zzAssert(d[15]&0x80 == 0, "sub result below 2^127")
}

//zz: prop=C12 also=C14 tier=quick backend=lia timeout=600
func ZZ_C12_fourq_fpMulGeneric() {
	a, aw := zzFpWords("a")
	b, bw := zzFpWords("b")
	// elementary facts about the abstracted 64x64 products: a1, b1 < 2^63
	zzAssumeNote(zzWLe(zzWMulLimbs64(aw[:1], bw[1:]), zzWConst("0x7ffffffffffffffe8000000000000001")), "a0*b1 <= (2^64-1)(2^63-1)")
	zzAssumeNote(zzWLe(zzWMulLimbs64(aw[1:], bw[:1]), zzWConst("0x7ffffffffffffffe8000000000000001")), "a1*b0 <= (2^63-1)(2^64-1)")
	zzAssumeNote(zzWLe(zzWMulLimbs64(aw[1:], bw[1:]), zzWConst("0x3fffffffffffffff0000000000000001")), "a1*b1 <= (2^63-1)^2")
	var m Fp
	fpMulGeneric(&m, a, b)
	zzAssert(zzWCong(zzWLE64(zzFpOut(&m)), zzWMulLimbs64(aw, bw), zzP127), "mul congruent to a*b")
	zzAssert(m[15]&0x80 == 0, "mul result below 2^127")
}
