package group

import "math/big"

// C11 (histories) for the NIST-curve groups of group/short.go.  The coordinates are math/big values;
// arithmetic on symbolic big integers is out of reach, so these harnesses fix the data (generator,
// identity) and let the *history* vary: the group and the mutating call are picked symbolically
// (zzPick) and every pick is one path of the executor.  They decide that
//  - Generator() hands out storage that is independent of the curve parameters and of earlier
//    results: no in-place operation on a returned generator changes what a later call returns;
//  - serialising an element does not write to it (two goroutines serialising one shared element do
//    not race; zzInterleave);
//  - C13: negating the identity yields the identity.

func zzShortGroup() wG {
	switch zzPick("group", 256, 384, 521) {
	case 256:
		return P256.(wG)
	case 384:
		return P384.(wG)
	default:
		return P521.(wG)
	}
}

//zz: prop=C11 tier=quick backend=bv timeout=120
func ZZ_C11_group_short_Generator_independent_of_earlier_results() {
	g := zzShortGroup()
	gx, gy := new(big.Int).Set(g.c.Params().Gx), new(big.Int).Set(g.c.Params().Gy)
	first := g.Generator().(*wElt)
	switch zzPick("op", 0, 1, 2, 3) {
	case 0:
		first.Neg(first)
	case 1:
		first.Set(g.Identity())
	case 2:
		first.CMov(1, g.Identity())
	case 3:
		_ = first.UnmarshalBinary([]byte{0})
	}
	again := g.Generator().(*wElt)
	zzAssert(again.x.Cmp(gx) == 0 && again.y.Cmp(gy) == 0, "Generator() after an in-place operation on an earlier generator is still the generator")
	zzAssert(g.c.Params().Gx.Cmp(gx) == 0 && g.c.Params().Gy.Cmp(gy) == 0, "curve parameters unchanged by operations on a returned element")
}

//zz: prop=C11 tier=quick backend=bv timeout=120
func ZZ_C11_group_short_marshal_shared_element_two_threads() {
	g := zzShortGroup()
	e := g.Generator().(*wElt).Copy().(*wElt)
	e.Neg(e)
	want, _ := e.Copy().MarshalBinary()
	var ra, rb []byte
	compress := zzPick("compressed", 0, 1) == 1
	at := zzPick("suspendAfterStore", 1, 2, 3, 4, 6, 8, 12, 16, 24, 32, 48, 64, 1000)
	pre := zzInterleave(
		func() { ra, _ = e.MarshalBinary() },
		func() {
			if compress {
				rb, _ = e.MarshalBinaryCompress()
			} else {
				rb, _ = e.MarshalBinary()
			}
		},
		at)
	if pre {
		zzReach("a schedule in which thread B runs while thread A is suspended")
	}
	zzAssert(zzBytesEq(ra, want), "thread A serialises the element as a call running alone does")
	if !compress {
		zzAssert(zzBytesEq(rb, want), "thread B serialises the element as a call running alone does")
	}
}

//zz: prop=C13 tier=quick backend=bv timeout=120
func ZZ_C13_group_short_Neg_identity() {
	g := zzShortGroup()
	id := g.Identity()
	n := g.NewElement().Neg(id)
	zzAssert(n.IsIdentity(), "-identity is the identity")
	zzAssert(n.IsEqual(id), "-identity equals the identity")
	gen := g.Generator()
	m := g.NewElement().Neg(gen)
	mm := g.NewElement().Neg(m)
	zzAssert(mm.IsEqual(gen), "-(-G) = G")
	me := m.(*wElt)
	zzAssert(me.y.Sign() > 0 && me.y.Cmp(g.c.Params().P) < 0, "-G has a reduced y coordinate")
}
