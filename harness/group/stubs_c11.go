package group

// ristretto255 fixed-base multiplication as an uninterpreted function of the scalar (set "r255uf"):
// used by the C11 harnesses of oprf, which decide the key cache, not the group arithmetic

//zz:replace (*group.ristrettoElement).MulGen set=r255uf
func zzStubRistrettoMulGen(e *ristrettoElement, x Scalar) Element {
	zzUFObj("r255.mulgen", e, x.(*ristrettoScalar))
	return e
}
