package group

import "math/big"

// C10: decoding a scalar of the NIST-curve groups: no input length panics, over-long input is an
// error.  C16 (RFC 9497 DeserializeScalar; "a proof with an altered component fails"): an accepted
// string of the exact encoded length is the canonical encoding of a value below the group order and
// re-serialises to the parsed bytes - so a proof whose scalar s is replaced by s + N (which fits
// for P-521: 66 bytes, 521-bit order) is refused.  Leading bytes symbolic; the group is picked.

//zz: prop=C10 tier=quick backend=bv timeout=300 maxpaths=20000
func ZZ_C10_group_short_scalar_UnmarshalBinary_no_panic() { zzScalarDecode(false) }

//zz: prop=C16 tier=quick backend=bv timeout=300 maxpaths=20000
func ZZ_C16_group_short_scalar_UnmarshalBinary_canonical() { zzScalarDecode(true) }

func zzScalarDecode(canon bool) {
	g := zzShortGroup()
	l := (g.c.Params().BitSize + 7) / 8
	n := zzPick("len", 0, 1, 31, 32, 33, 47, 48, 49, 65, 66, 67, 140)
	b := make([]byte, n)
	if n > 0 {
		b[0] = zzU8("b0")
	}
	if n > 1 {
		b[1] = zzU8("b1")
		b[n-1] = zzU8("blast")
	}
	s := g.zeroScalar()
	err := s.UnmarshalBinary(b)
	if n > l {
		zzAssert(err != nil, "an over-long encoding is refused")
	}
	if err != nil || n != l || !canon {
		return
	}
	zzReach("accepted, exact length")
	out, _ := s.MarshalBinary()
	zzAssert(zzBytesEq(out, b), "accepted scalar re-serialises to the parsed bytes")
	zzAssert(new(big.Int).SetBytes(b).Cmp(g.c.Params().N) < 0, "accepted scalar is below the group order")
}
