package polynomial

import "github.com/cloudflare/circl/group"

// C11: values returned by a polynomial are independent of its internal state and of the arguments
// it was built from: modifying a scalar returned by Evaluate / Coefficient, or a coefficient slice
// handed to New, never changes what later calls return.  Abstract field (SMT reals), 1 to 3
// coefficients, every coefficient and evaluation point symbolic.

//zz: prop=C11 also=C17 tier=quick backend=bv timeout=300
func ZZ_C11_polynomial_results_do_not_alias_internal_state() {
	n := zzPick("coefficients", 1, 2, 3)
	cs := make([]group.Scalar, n)
	vals := make([]zzR, n)
	for i := range cs {
		s := zzSclVar("c" + string(rune('0'+i)))
		cs[i], vals[i] = s, s.v
	}
	x := zzSclVar("x")
	xv := x.v
	p := New(cs)
	// expected value, Horner over the saved reals
	want := vals[n-1]
	for i := n - 2; i >= 0; i-- {
		want = zzRAdd(zzRMul(want, xv), vals[i])
	}
	switch zzPick("mutated", 0, 1, 2) {
	case 0: // a returned evaluation
		r := p.Evaluate(x)
		r.Add(r, r)
	case 1: // a returned coefficient
		c := p.Coefficient(0)
		c.Add(c, c)
		zzAssert(zzREq(p.Coefficient(0).(*zzScl).v, vals[0]), "Coefficient(0) unchanged after modifying an earlier result")
	case 2: // the slice and scalars the polynomial was built from
		cs[0].Add(cs[0], cs[0])
	}
	zzAssert(zzREq(p.Evaluate(x).(*zzScl).v, want), "Evaluate returns the polynomial's value regardless of what was done to earlier results or to the constructor's arguments")
	zzAssert(zzREq(x.v, xv), "the evaluation point is not modified")
}
