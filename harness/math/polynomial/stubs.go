package polynomial

import "github.com/cloudflare/circl/group"

// areAllDifferent keys a map by the scalars' byte encodings; over the abstract field the same
// predicate is pairwise inequality (set "absfield").

//zz:replace math/polynomial.areAllDifferent set=absfield
func zzStubAllDifferent(x []group.Scalar) bool {
	for i := range x {
		for j := 0; j < i; j++ {
			if x[i].IsEqual(x[j]) {
				return false
			}
		}
	}
	return true
}
