package fp25519

// C12: GF(2^255-19) arithmetic equals integer arithmetic mod p for every byte string.
// LIA carry-equation back end; 64x64 partial products are free bounded integers shared
// between implementation and specification (DESIGN §2.4).

const zzP = "0x7fffffffffffffffffffffffffffffffffffffffffffffffffffffffffffffed"

func zzElt(name string) *Elt {
	x := new(Elt)
	zzFillLimbs(name, x[:])
	return x
}

//zz: prop=C12 also=C14 tier=quick backend=lia timeout=120
func ZZ_C12_fp25519_add() {
	x, y, z := zzElt("x"), zzElt("y"), new(Elt)
	want := zzWAdd(zzWLE(x[:]), zzWLE(y[:]))
	Add(z, x, y)
	zzAssert(zzWCong(zzWLE(z[:]), want, zzP), "add congruent")
}

// aliasing z=x
//
//zz: prop=C12 tier=quick backend=lia timeout=120
func ZZ_C12_fp25519_add_alias() {
	x, y := zzElt("x"), zzElt("y")
	want := zzWAdd(zzWLE(x[:]), zzWLE(y[:]))
	Add(x, x, y)
	zzAssert(zzWCong(zzWLE(x[:]), want, zzP), "add (z=x) congruent")
	x2 := zzElt("x2")
	want2 := zzWAdd(zzWLE(x2[:]), zzWLE(x2[:]))
	Add(x2, x2, x2)
	zzAssert(zzWCong(zzWLE(x2[:]), want2, zzP), "add (z=x=y) congruent")
}

//zz: prop=C12 also=C14 tier=quick backend=lia timeout=120
func ZZ_C12_fp25519_sub() {
	x, y, z := zzElt("x"), zzElt("y"), new(Elt)
	want := zzWSub(zzWLE(x[:]), zzWLE(y[:]))
	Sub(z, x, y)
	zzAssert(zzWCong(zzWLE(z[:]), want, zzP), "sub congruent")
	y2 := zzElt("y2")
	want2 := zzWSub(zzWLE(x[:]), zzWLE(y2[:]))
	Sub(y2, x, y2)
	zzAssert(zzWCong(zzWLE(y2[:]), want2, zzP), "sub (z=y) congruent")
}

//zz: prop=C12 tier=quick backend=lia timeout=120
func ZZ_C12_fp25519_neg() {
	x, z := zzElt("x"), new(Elt)
	Neg(z, x)
	zzAssert(zzWCong(zzWAdd(zzWLE(z[:]), zzWLE(x[:])), zzWConst("0"), zzP), "neg: z + x = 0 mod p")
}

//zz: prop=C12 also=C14 tier=quick backend=lia timeout=120
func ZZ_C12_fp25519_addsub() {
	x, y := zzElt("x"), zzElt("y")
	s := zzWAdd(zzWLE(x[:]), zzWLE(y[:]))
	d := zzWSub(zzWLE(x[:]), zzWLE(y[:]))
	AddSub(x, y)
	zzAssert(zzWCong(zzWLE(x[:]), s, zzP), "addsub: x' = x+y")
	zzAssert(zzWCong(zzWLE(y[:]), d, zzP), "addsub: y' = x-y")
}

//zz: prop=C12 also=C14 tier=quick backend=lia timeout=300
func ZZ_C12_fp25519_mul() {
	x, y, z := zzElt("x"), zzElt("y"), new(Elt)
	want := zzWMulLimbs(x[:], y[:])
	Mul(z, x, y)
	zzAssert(zzWCong(zzWLE(z[:]), want, zzP), "mul congruent")
}

//zz: prop=C12 tier=quick backend=lia timeout=300
func ZZ_C12_fp25519_mul_alias() {
	x, y := zzElt("x"), zzElt("y")
	want := zzWMulLimbs(x[:], y[:])
	Mul(x, x, y)
	zzAssert(zzWCong(zzWLE(x[:]), want, zzP), "mul (z=x) congruent")
}

//zz: prop=C12 also=C14 tier=quick backend=lia timeout=300
func ZZ_C12_fp25519_sqr() {
	x, z := zzElt("x"), new(Elt)
	want := zzWMulLimbs(x[:], x[:])
	Sqr(z, x)
	zzAssert(zzWCong(zzWLE(z[:]), want, zzP), "sqr congruent")
}

// red64 alone: every 512-bit value (exact encoding: only constant multipliers)
//
//zz: prop=C12 also=C14 tier=quick backend=lia timeout=120
func ZZ_C12_fp25519_red64() {
	var w [8]uint64
	zzFill("w", &w)
	z := new(Elt)
	red64(z, w[0], w[1], w[2], w[3], w[4], w[5], w[6], w[7])
	zzAssert(zzWCong(zzWLE(z[:]), zzWLE64(w[:]), zzP), "red64 congruent")
}

// Modp: unique representative below p
//
//zz: prop=C12 also=C14 tier=quick backend=lia timeout=120
func ZZ_C12_fp25519_modp() {
	x := zzElt("x")
	v := zzWLE(x[:])
	Modp(x)
	r := zzWLE(x[:])
	zzAssert(zzWCong(r, v, zzP), "modp congruent")
	zzAssert(zzWLt(r, zzWConst(zzP)), "modp canonical (< p)")
}

//zz: prop=C12 tier=quick backend=lia timeout=120
func ZZ_C12_fp25519_iszero_tobytes() {
	x := zzElt("x")
	v := zzWLE(x[:])
	x2 := *x
	isz := IsZero(&x2)
	zzAssert(zzIff(isz, zzWEq(zzWMod(v, zzP), zzWConst("0"))), "IsZero iff x = 0 mod p")
	var out [32]byte
	x3 := *x
	err := ToBytes(out[:], &x3)
	zzAssert(err == nil, "ToBytes accepts 32-byte buffer")
	zzAssert(zzWEq(zzWLE(out[:]), zzWMod(v, zzP)), "ToBytes = canonical representative")
	n := zzPick("buflen", 0, 31, 33)
	err = ToBytes(make([]byte, n), &x3)
	zzAssert(err != nil, "ToBytes rejects wrong size")
}

//zz: prop=C12 also=C14 tier=quick backend=bv timeout=60
func ZZ_C12_fp25519_cmov_cswap() {
	x, y := zzElt("x"), zzElt("y")
	n := zzUint("n")
	x0, y0 := *x, *y
	Cmov(x, y, n)
	for i := 0; i < Size; i++ {
		if n&1 == 1 {
			zzAssert(x[i] == y0[i], "cmov moves when n&1=1")
		} else {
			zzAssert(x[i] == x0[i], "cmov keeps when n&1=0")
		}
		zzAssert(y[i] == y0[i], "cmov leaves y")
	}
	a, b := x0, y0
	Cswap(&a, &b, n)
	for i := 0; i < Size; i++ {
		if n&1 == 1 {
			zzAssert(a[i] == y0[i] && b[i] == x0[i], "cswap swaps when n&1=1")
		} else {
			zzAssert(a[i] == x0[i] && b[i] == y0[i], "cswap keeps when n&1=0")
		}
	}
}

//zz: prop=C12 tier=quick backend=lia timeout=60 expect=fail
func ZZ_C12_fp25519_selftest_wrongmodulus() {
	x, y, z := zzElt("x"), zzElt("y"), new(Elt)
	want := zzWAdd(zzWLE(x[:]), zzWLE(y[:]))
	Add(z, x, y)
	zzAssert(zzWCong(zzWLE(z[:]), want, "0x7fffffffffffffffffffffffffffffffffffffffffffffffffffffffffffffef"), "add congruent mod 2^255-17 (false)")
}
