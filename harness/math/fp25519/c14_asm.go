package fp25519

// C14/C12: the amd64 assembly bodies of GF(2^255-19) arithmetic (both the legacy MULQ/ADCQ variant
// and the MULX/ADCX/ADOX variant selected by hasBmi2Adx), executed symbolically from the
// assembler's macro-expanded listing, meet the same contract as the portable Go bodies: congruent
// results for every pair of 32-byte strings; the canonicalising modp is bit-identical to the Go
// body; cmov/cswap are bit-identical.  Canonicalised outputs (ToBytes/Modp/IsZero) of the two
// builds therefore coincide.

const zzAsmFile = "math/fp25519/fp_amd64.s"

func zzAsm(fn string, feature bool, z, x, y *Elt, n uint) {
	if !zzSymbolic() {
		zzNativeAsm(fn, feature, z, x, y, n)
		return
	}
	switch fn {
	case "sqrAmd64":
		zzAsmCall(zzAsmFile, fn, feature, z, x)
	case "modpAmd64":
		zzAsmCall(zzAsmFile, fn, feature, z)
	case "addsubAmd64":
		zzAsmCall(zzAsmFile, fn, feature, x, y)
	case "cmovAmd64", "cswapAmd64":
		zzAsmCall(zzAsmFile, fn, feature, x, y, n)
	default:
		zzAsmCall(zzAsmFile, fn, feature, z, x, y)
	}
}

func zzAsmBinop(fn string, feature bool) {
	x, y, z := zzElt("x"), zzElt("y"), new(Elt)
	var want zzW
	switch fn {
	case "addAmd64":
		want = zzWAdd(zzWLE(x[:]), zzWLE(y[:]))
	case "subAmd64":
		want = zzWSub(zzWLE(x[:]), zzWLE(y[:]))
	default:
		want = zzWMulLimbs(x[:], y[:])
	}
	zzAsm(fn, feature, z, x, y, 0)
	zzAssert(zzWCong(zzWLE(z[:]), want, zzP), "assembly result congruent to the integer result mod p")
}

//zz: prop=C14 tier=quick backend=lia timeout=300
func ZZ_C14_fp25519_asm_add_sub() {
	feature := zzPick("hasBmi2Adx", 0, 1) == 1
	if zzPick("op", 0, 1) == 0 {
		zzAsmBinop("addAmd64", feature)
	} else {
		zzAsmBinop("subAmd64", feature)
	}
}

//zz: prop=C14 also=C12 tier=quick backend=lia timeout=600
func ZZ_C14_fp25519_asm_mul_legacy() { zzAsmBinop("mulAmd64", false) }

//zz: prop=C14 also=C12 tier=quick backend=lia timeout=600
func ZZ_C14_fp25519_asm_mul_bmi2adx() { zzAsmBinop("mulAmd64", true) }

//zz: prop=C14 also=C12 tier=quick backend=lia timeout=600
func ZZ_C14_fp25519_asm_sqr() {
	feature := zzPick("hasBmi2Adx", 0, 1) == 1
	x, z := zzElt("x"), new(Elt)
	want := zzWMulLimbs(x[:], x[:])
	zzAsm("sqrAmd64", feature, z, x, nil, 0)
	zzAssert(zzWCong(zzWLE(z[:]), want, zzP), "assembly square congruent to x*x mod p")
}

// modp: bit-identical to the portable body (both canonical)
//
//zz: prop=C14 tier=quick backend=lia timeout=300
func ZZ_C14_fp25519_asm_modp() {
	feature := zzPick("hasBmi2Adx", 0, 1) == 1
	x := zzElt("x")
	v := zzWLE(x[:])
	g := *x
	modpGeneric(&g)
	zzAsm("modpAmd64", feature, x, nil, nil, 0)
	zzAssert(zzWEq(zzWLE(x[:]), zzWMod(v, zzP)), "assembly modp = canonical representative")
	zzAssert(zzWEq(zzWLE(x[:]), zzWLE(g[:])), "assembly modp = portable modp")
}

//zz: prop=C14 tier=quick backend=bv timeout=120
func ZZ_C14_fp25519_asm_cmov_cswap() {
	x, y := zzElt("x"), zzElt("y")
	n := zzUint("n")
	zzAssumeNote(n <= 1, "cmov/cswap are called with n in {0,1} (documented)")
	gx, gy := *x, *y
	ax, ay := *x, *y
	cmovGeneric(&gx, &gy, n)
	zzAsm("cmovAmd64", false, nil, &ax, &ay, n)
	zzAssert(ax == gx && ay == gy, "assembly cmov = portable cmov")
	gx, gy, ax, ay = *x, *y, *x, *y
	cswapGeneric(&gx, &gy, n)
	zzAsm("cswapAmd64", false, nil, &ax, &ay, n)
	zzAssert(ax == gx && ay == gy, "assembly cswap = portable cswap")
}
