package fp448

// C12/C11 (aliasing patterns z = x, z = y): InvSqrt(z, x, y) returns the same verdict and the same
// z when its output aliases one of its inputs as when it does not, for every pair of field strings.
// Multiplication and squaring are uninterpreted functions (set "fp448kern"): the property is about the
// order in which the routine reads its operands and writes its result, not about the arithmetic.

//zz:replace math/fp448.Mul set=fp448kern
func zzStubKernMul(z, x, y *Elt) { copy(z[:], zzUF("fp448.mul", Size, x[:], y[:])) }

//zz:replace math/fp448.Sqr set=fp448kern
func zzStubKernSqr(z, x *Elt) { copy(z[:], zzUF("fp448.mul", Size, x[:], x[:])) }

//zz: prop=C12 also=C11 tier=quick backend=bv use=fp448kern timeout=600
func ZZ_C12_fp448_InvSqrt_alias_safe() {
	if !zzSymbolic() {
		zzModelOnly()
	}
	var x, y, z Elt
	zzFill("x", &x)
	zzFill("y", &y)
	ok := InvSqrt(&z, &x, &y)
	xa, ya := x, y
	var ok2 bool
	var res Elt
	if zzPick("alias", 0, 1) == 0 {
		ok2 = InvSqrt(&xa, &xa, &ya)
		res = xa
	} else {
		ok2 = InvSqrt(&ya, &xa, &ya)
		res = ya
	}
	zzAssert(zzIff(ok, ok2), "same quadratic-residue verdict when z aliases an input")
	zzAssert(zzImplies(ok, res == z), "same result when z aliases an input")
}

// the same aliasing question for the arithmetic entry points on the real portable code (no stubs):
// z = x, z = y and x = y give what the non-aliased call gives, for every pair of field strings
//
//zz: prop=C12 also=C11 tier=quick backend=bv timeout=600
func ZZ_C12_fp448_arithmetic_alias_safe() {
	var x, y Elt
	zzFill("x", &x)
	zzFill("y", &y)
	bin := func(name string, op func(z, x, y *Elt)) {
		var z Elt
		op(&z, &x, &y)
		zx := x
		op(&zx, &zx, &y)
		zzAssert(z == zx, name+": z = x")
		zy := y
		op(&zy, &x, &zy)
		zzAssert(z == zy, name+": z = y")
		var s, s2 Elt
		xx := x
		op(&s, &x, &xx)
		op(&s2, &x, &x)
		zzAssert(s == s2, name+": x = y")
	}
	un := func(name string, op func(z, x *Elt)) {
		var z Elt
		op(&z, &x)
		zx := x
		op(&zx, &zx)
		zzAssert(z == zx, name+": z = x")
	}
	switch zzPick("operation", 0, 1, 2, 3, 4) {
	case 0:
		bin("Add", Add)
	case 1:
		bin("Sub", Sub)
	case 2:
		bin("Mul", Mul)
	case 3:
		un("Sqr", Sqr)
	case 4:
		un("Neg", Neg)
	}
}
