//go:build amd64 && !purego

package fp448

// native side of the C14 harnesses: the real assembly routines with the CPU-feature byte forced

func zzNativeAsm(fn string, feature bool, z, x, y *Elt, n uint) {
	save := hasBmi2Adx
	hasBmi2Adx = feature
	defer func() { hasBmi2Adx = save }()
	switch fn {
	case "addAmd64":
		addAmd64(z, x, y)
	case "subAmd64":
		subAmd64(z, x, y)
	case "mulAmd64":
		mulAmd64(z, x, y)
	case "sqrAmd64":
		sqrAmd64(z, x)
	case "addsubAmd64":
		addsubAmd64(x, y)
	case "cmovAmd64":
		cmovAmd64(x, y, n)
	case "cswapAmd64":
		cswapAmd64(x, y, n)
	}
}
