//go:build !amd64 || purego

package fp448

func zzNativeAsm(fn string, feature bool, z, x, y *Elt, n uint) {
	panic("ZZ-MODEL-ONLY: assembly routines are not part of this build")
}
