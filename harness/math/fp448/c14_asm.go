package fp448

// C14/C12: the amd64 assembly bodies of GF(2^448-2^224-1) arithmetic (legacy MULQ/ADCQ variant and
// MULX/ADCX/ADOX variant selected by hasBmi2Adx), executed symbolically from the assembler's
// macro-expanded listing (regenerated from /repo on every run), meet the contract the portable Go
// bodies meet (C12 harnesses): results congruent to the integer result mod p for every pair of
// 56-byte strings; cmov/cswap bit-identical to the portable bodies.  Everything a caller can
// observe goes through the canonicalising Modp/ToBytes/IsZero (pure Go in every build), so
// congruence of the limbs implies bit-identical public outputs.

const zzAsmFile = "math/fp448/fp_amd64.s"

func zzAsm(fn string, feature bool, z, x, y *Elt, n uint) {
	if !zzSymbolic() {
		zzNativeAsm(fn, feature, z, x, y, n)
		return
	}
	switch fn {
	case "sqrAmd64":
		zzAsmCall(zzAsmFile, fn, feature, z, x)
	case "addsubAmd64":
		zzAsmCall(zzAsmFile, fn, feature, x, y)
	case "cmovAmd64", "cswapAmd64":
		zzAsmCall(zzAsmFile, fn, feature, x, y, n)
	default:
		zzAsmCall(zzAsmFile, fn, feature, z, x, y)
	}
}

//zz: prop=C14 also=C12,C06 tier=quick backend=lia timeout=300
func ZZ_C14_fp448_asm_add() {
	feature := zzPick("hasBmi2Adx", 0, 1) == 1
	x, y, z := zzElt("x"), zzElt("y"), new(Elt)
	want := zzWAdd(zzWLE(x[:]), zzWLE(y[:]))
	zzAsm("addAmd64", feature, z, x, y, 0)
	zzAssert(zzWCong(zzWLE(z[:]), want, zzP), "assembly add congruent to x+y mod p")
}

//zz: prop=C14 also=C12,C06 tier=quick backend=lia timeout=300
func ZZ_C14_fp448_asm_sub() {
	x, y, z := zzElt("x"), zzElt("y"), new(Elt)
	want := zzWSub(zzWLE(x[:]), zzWLE(y[:]))
	zzAsm("subAmd64", false, z, x, y, 0)
	zzAssert(zzWCong(zzWLE(z[:]), want, zzP), "assembly sub congruent to x-y mod p")
}

//zz: prop=C14 also=C12,C06 tier=quick backend=lia timeout=300
func ZZ_C14_fp448_asm_addsub() {
	x, y := zzElt("x"), zzElt("y")
	s := zzWAdd(zzWLE(x[:]), zzWLE(y[:]))
	d := zzWSub(zzWLE(x[:]), zzWLE(y[:]))
	zzAsm("addsubAmd64", false, nil, x, y, 0)
	zzAssert(zzWCong(zzWLE(x[:]), s, zzP), "assembly addsub: x' = x+y mod p")
	zzAssert(zzWCong(zzWLE(y[:]), d, zzP), "assembly addsub: y' = x-y mod p")
}

//zz: prop=C14 also=C12 tier=quick backend=lia timeout=900
func ZZ_C14_fp448_asm_mul_legacy() {
	x, y, z := zzElt("x"), zzElt("y"), new(Elt)
	want := zzWMulLimbs(x[:], y[:])
	zzAsm("mulAmd64", false, z, x, y, 0)
	zzAssert(zzWCong(zzWLE(z[:]), want, zzP), "assembly product congruent to x*y mod p")
}

//zz: prop=C14 also=C12 tier=quick backend=lia timeout=1800
func ZZ_C14_fp448_asm_mul_bmi2adx() {
	x, y, z := zzElt("x"), zzElt("y"), new(Elt)
	want := zzWMulLimbs(x[:], y[:])
	zzAsm("mulAmd64", true, z, x, y, 0)
	zzAssert(zzWCong(zzWLE(z[:]), want, zzP), "assembly product congruent to x*y mod p")
}

func zzAsmSqr(feature bool) {
	x, z := zzElt("x"), new(Elt)
	want := zzWMulLimbs(x[:], x[:])
	zzAsm("sqrAmd64", feature, z, x, nil, 0)
	zzAssert(zzWCong(zzWLE(z[:]), want, zzP), "assembly square congruent to x*x mod p")
}

//zz: prop=C14 tier=deep backend=lia timeout=7200
func ZZ_C14_fp448_asm_sqr_legacy() { zzAsmSqr(false) }

// the MULX/ADX squaring multiplies by (2*x_i + carry) mod 2^64; the LIA translator distributes such
// products over the carry-chain additions (smt.go prodExpr) so that they are tied to x_i*x_j
//
//zz: prop=C14 tier=deep backend=lia timeout=7200
func ZZ_C14_fp448_asm_sqr_bmi2adx() { zzAsmSqr(true) }

//zz: prop=C14 tier=quick backend=bv timeout=120
func ZZ_C14_fp448_asm_cmov_cswap() {
	x, y := zzElt("x"), zzElt("y")
	n := zzUint("n")
	zzAssumeNote(n <= 1, "cmov/cswap are called with n in {0,1} (documented)")
	gx, gy := *x, *y
	ax, ay := *x, *y
	cmovGeneric(&gx, &gy, n)
	zzAsm("cmovAmd64", false, nil, &ax, &ay, n)
	zzAssert(ax == gx && ay == gy, "assembly cmov = portable cmov")
	gx, gy, ax, ay = *x, *y, *x, *y
	cswapGeneric(&gx, &gy, n)
	zzAsm("cswapAmd64", false, nil, &ax, &ay, n)
	zzAssert(ax == gx && ay == gy, "assembly cswap = portable cswap")
}
