package fp448

// C12: GF(2^448-2^224-1) arithmetic equals integer arithmetic mod p for every 56-byte string.

const zzP = "0xfffffffffffffffffffffffffffffffffffffffffffffffffffffffeffffffffffffffffffffffffffffffffffffffffffffffffffffffff"

func zzElt(name string) *Elt {
	x := new(Elt)
	zzFillLimbs(name, x[:])
	return x
}

//zz: prop=C12 also=C14 tier=quick backend=lia timeout=300
func ZZ_C12_fp448_add() {
	x, y, z := zzElt("x"), zzElt("y"), new(Elt)
	want := zzWAdd(zzWLE(x[:]), zzWLE(y[:]))
	Add(z, x, y)
	zzAssert(zzWCong(zzWLE(z[:]), want, zzP), "add congruent")
}

//zz: prop=C12 also=C14 tier=quick backend=lia timeout=300
func ZZ_C12_fp448_sub() {
	x, y, z := zzElt("x"), zzElt("y"), new(Elt)
	want := zzWSub(zzWLE(x[:]), zzWLE(y[:]))
	Sub(z, x, y)
	zzAssert(zzWCong(zzWLE(z[:]), want, zzP), "sub congruent")
}

//zz: prop=C12 also=C14 tier=quick backend=lia timeout=300
func ZZ_C12_fp448_neg_addsub() {
	x, y, z := zzElt("x"), zzElt("y"), new(Elt)
	Neg(z, x)
	zzAssert(zzWCong(zzWAdd(zzWLE(z[:]), zzWLE(x[:])), zzWConst("0"), zzP), "neg: z + x = 0 mod p")
	s := zzWAdd(zzWLE(x[:]), zzWLE(y[:]))
	d := zzWSub(zzWLE(x[:]), zzWLE(y[:]))
	AddSub(x, y)
	zzAssert(zzWCong(zzWLE(x[:]), s, zzP), "addsub: x' = x+y")
	zzAssert(zzWCong(zzWLE(y[:]), d, zzP), "addsub: y' = x-y")
}

//zz: prop=C12 also=C14 tier=quick backend=lia timeout=300
func ZZ_C12_fp448_modp_iszero_tobytes() {
	x := zzElt("x")
	v := zzWLE(x[:])
	x1 := *x
	Modp(&x1)
	r := zzWLE(x1[:])
	zzAssert(zzWCong(r, v, zzP), "modp congruent")
	zzAssert(zzWLt(r, zzWConst(zzP)), "modp canonical (< p)")
	x2 := *x
	zzAssert(zzIff(IsZero(&x2), zzWEq(zzWMod(v, zzP), zzWConst("0"))), "IsZero iff x = 0 mod p")
	x3 := *x
	zzAssert(zzIff(IsOne(&x3), zzWEq(zzWMod(v, zzP), zzWConst("1"))), "IsOne iff x = 1 mod p")
	var out [Size]byte
	x4 := *x
	err := ToBytes(out[:], &x4)
	zzAssert(err == nil, "ToBytes accepts a 56-byte buffer")
	zzAssert(zzWEq(zzWLE(out[:]), zzWMod(v, zzP)), "ToBytes = canonical representative")
}

// red64: every pair (l, h) of 7-limb values: z ≡ l + h*2^448 (mod p)
//
//zz: prop=C12 also=C14 tier=quick backend=lia timeout=300
func ZZ_C12_fp448_red64() {
	var l, h [7]uint64
	zzFill("l", &l)
	zzFill("h", &h)
	z := new(Elt)
	want := zzWAdd(zzWLE64(l[:]), zzWMulC(zzWLE64(h[:]), "0x10000000000000000000000000000000000000000000000000000000000000000000000000000000000000000000000000000000000000000"))
	red64(z, &l, &h)
	zzAssert(zzWCong(zzWLE(z[:]), want, zzP), "red64 congruent")
}

// schoolbook part of mulGeneric: the 14 limbs handed to red64 are exactly the integer product
// (red64 replaced by a recorder; its own contract is ZZ_C12_fp448_red64)

var zzRedL, zzRedH [7]uint64
var zzRedCalls int

//zz:replace math/fp448.red64 set=red64rec
func zzStubRed64(z *Elt, l, h *[7]uint64) {
	zzRedL, zzRedH = *l, *h
	zzRedCalls++
}

//zz: prop=C12 tier=quick backend=lia timeout=300 use=red64rec
func ZZ_C12_fp448_mul_schoolbook() {
	x, y, z := zzElt("x"), zzElt("y"), new(Elt)
	want := zzWMulLimbs(x[:], y[:])
	Mul(z, x, y)
	got := zzWAdd(zzWLE64(zzRedL[:]), zzWMulC(zzWLE64(zzRedH[:]), "0x10000000000000000000000000000000000000000000000000000000000000000000000000000000000000000000000000000000000000000"))
	zzAssert(zzRedCalls == 1, "red64 called once")
	zzAssert(zzWEq(got, want), "limbs handed to red64 = x*y exactly")
}

//zz: prop=C12 tier=quick backend=lia timeout=300 use=red64rec
func ZZ_C12_fp448_sqr_schoolbook() {
	x, z := zzElt("x"), new(Elt)
	want := zzWMulLimbs(x[:], x[:])
	Sqr(z, x)
	got := zzWAdd(zzWLE64(zzRedL[:]), zzWMulC(zzWLE64(zzRedH[:]), "0x10000000000000000000000000000000000000000000000000000000000000000000000000000000000000000000000000000000000000000"))
	zzAssert(zzWEq(got, want), "limbs handed to red64 = x*x exactly")
}

//zz: prop=C12 also=C14 tier=quick backend=bv timeout=60
func ZZ_C12_fp448_cmov_cswap() {
	x, y := zzElt("x"), zzElt("y")
	n := zzUint("n")
	x0, y0 := *x, *y
	Cmov(x, y, n)
	for i := 0; i < Size; i++ {
		if n&1 == 1 {
			zzAssert(x[i] == y0[i], "cmov moves when n&1=1")
		} else {
			zzAssert(x[i] == x0[i], "cmov keeps when n&1=0")
		}
		zzAssert(y[i] == y0[i], "cmov leaves y")
	}
	a, b := x0, y0
	Cswap(&a, &b, n)
	for i := 0; i < Size; i++ {
		if n&1 == 1 {
			zzAssert(a[i] == y0[i] && b[i] == x0[i], "cswap swaps when n&1=1")
		} else {
			zzAssert(a[i] == x0[i] && b[i] == y0[i], "cswap keeps when n&1=0")
		}
	}
}
