#!/bin/sh
# usage: seedtest.sh <seed-dir> <property> [extra gosmt args]   -- applies seeded/<dir>/patch.diff to /repo, runs the quick
# check over both harness roots (portable tags, default amd64 tags), reverts
set -u
D=/verif/seeded/$1; P=$2; shift 2
git -C /repo apply "$D/patch.diff" || { echo "patch does not apply"; exit 3; }
/verif/bin/gosmt check -prop "$P" -tier "${TIER:-quick}" -harness /verif/harness -known /verif/known_findings.json -replaydir /tmp/seed_replay -out /tmp/seed_evidence_$P.json "$@" 2>&1 | grep -E "finding|VIOLATION|INCONCL|harnesses held" | cut -c1-260
/verif/bin/gosmt check -prop "$P" -tier "${TIER:-quick}" -harness /verif/harness_default -tags "math_big_pure_go,appengine" -known /verif/known_findings.json -replaydir /tmp/seed_replay -out /tmp/seed_evidence_${P}_default.json "$@" 2>&1 | grep -E "finding|VIOLATION|INCONCL|harnesses held" | cut -c1-260
git -C /repo checkout -- . 
git -C /repo status --short | grep -v "^??"
