package p384

// Native demonstration of the C13 finding repaired by the "fix: p384 CombinedMult" commit: copy into
// /repo/ecc/p384 and run go test -run ZZCombined ./ecc/p384/ (default amd64 build; before the fix
// CombinedMult(G, m, m) returned (0,0)).

import (
	"crypto/elliptic"
	"math/big"
	"testing"
)

func TestZZCombined(t *testing.T) {
	ref := elliptic.P384()
	c := P384()
	G := ref.Params()
	for _, mn := range [][2]int64{{1, 1}, {2, 2}, {3, 3}, {1, -1}, {5, 5}, {7, 9}, {4, 4}, {17, 17}, {1, 2}} {
		m := big.NewInt(mn[0])
		n := new(big.Int).Mod(big.NewInt(mn[1]), G.N)
		x, y := c.CombinedMult(G.Gx, G.Gy, m.Bytes(), n.Bytes())
		s := new(big.Int).Add(m, n)
		s.Mod(s, G.N)
		wx, wy := ref.ScalarBaseMult(s.Bytes())
		if x.Cmp(wx) != 0 || y.Cmp(wy) != 0 {
			t.Errorf("m=%v n=%v got (%v,%v) want (%v,%v)", mn[0], mn[1], x, y, wx, wy)
		}
	}
}
