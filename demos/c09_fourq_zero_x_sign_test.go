package fourq

// Native demonstration (C09): y = 1 (the identity, x = 0) and y = -1 (the point of order two, x = 0)
// with the sign bit set are non-canonical encodings - Marshal writes the sign of x = 0 as 0 - and
// must be refused.  Copy into ecc/fourq/ and run `go test -run ZZDemoZeroXSign ./ecc/fourq/`.

import "testing"

func TestZZDemoZeroXSign(t *testing.T) {
	for _, first := range []byte{1, 0xfe} {
		var in, out [Size]byte
		if first == 1 {
			in[0] = 1 // y = 1
		} else { // y = p - 1 = 2^127 - 2 in the real part
			for i := 0; i < 16; i++ {
				in[i] = 0xff
			}
			in[0], in[15] = 0xfe, 0x7f
		}
		var P Point
		if !P.Unmarshal(&in) {
			t.Fatalf("canonical encoding with x = 0 refused")
		}
		in[Size-1] |= 0x80
		if P.Unmarshal(&in) {
			P.Marshal(&out)
			if out != in {
				t.Errorf("accepted %x, re-serialises to %x", in, out)
			}
		}
	}
}
