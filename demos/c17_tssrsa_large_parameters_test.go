package rsa

// Native demonstration of the two C17 findings repaired by "fix: tss/rsa computePolynomial ..." and
// "fix: tss/rsa computeLambda ...": copy into /repo/tss/rsa and run go test -run ZZBig ./tss/rsa/
// (before the fixes CombineSignShares failed for (30,12) players 19.., (25,20), (30,16), (30,30), (20,20)).

import (
	"crypto"
	"crypto/rand"
	"crypto/rsa"
	"testing"
)

func TestZZBig(t *testing.T) {
	key, err := rsa.GenerateKey(rand.Reader, 1024)
	if err != nil {
		t.Fatal(err)
	}
	for _, c := range []struct{ l, k, first uint }{{30, 12, 19}, {25, 20, 6}, {30, 16, 15}, {30, 30, 1}, {20, 20, 1}} {
		keys, err := Deal(rand.Reader, c.l, c.k, key, false)
		if err != nil {
			t.Fatal(err)
		}
		msg := []byte("hello")
		padded, err := PadHash(&PKCS1v15Padder{}, crypto.SHA256, &key.PublicKey, msg)
		if err != nil {
			t.Fatal(err)
		}
		var shares []SignShare
		for i := c.first - 1; i < c.first-1+c.k; i++ {
			s, err := keys[i].Sign(rand.Reader, &key.PublicKey, padded, false)
			if err != nil {
				t.Fatal(err)
			}
			shares = append(shares, s)
		}
		sig, err := CombineSignShares(&key.PublicKey, shares, padded)
		if err != nil {
			t.Errorf("(l=%d,k=%d) players %d..: %v", c.l, c.k, c.first, err)
			continue
		}
		h := crypto.SHA256.New()
		h.Write(msg)
		if err := rsa.VerifyPKCS1v15(&key.PublicKey, crypto.SHA256, h.Sum(nil), sig); err != nil {
			t.Errorf("(l=%d,k=%d): %v", c.l, c.k, err)
		}
	}
}
