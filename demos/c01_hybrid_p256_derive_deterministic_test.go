package hybrid

// Native demonstration of the C01 finding repaired by "fix: kem/hybrid NIST-curve DeriveKeyPair ...":
// copy into /repo/kem/hybrid and run go test -run ZZDet ./kem/hybrid/ (before the fix about half of
// the derivations from one seed differed: crypto/ecdh GenerateKey reads a random extra byte).

import "testing"

func TestZZDet(t *testing.T) {
	s := P256Kyber768Draft00()
	seed := make([]byte, s.SeedSize())
	pk0, _ := s.DeriveKeyPair(seed)
	b0, _ := pk0.MarshalBinary()
	diff := 0
	for i := 0; i < 64; i++ {
		pk, _ := s.DeriveKeyPair(seed)
		b, _ := pk.MarshalBinary()
		if string(b) != string(b0) {
			diff++
		}
	}
	if diff != 0 {
		t.Fatalf("%d of 64 derivations from one seed differ", diff)
	}
}
