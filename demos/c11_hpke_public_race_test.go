package hpke

import (
	"sync"
	"testing"
)

func TestZZRacePublic(t *testing.T) {
	bad := 0
	for it := 0; it < 3000; it++ {
		_, skI, _ := KEM_X25519_HKDF_SHA256.Scheme().GenerateKeyPair()
		sk0 := skI.(*xKEMPrivKey)
		want := sk0.Public().(*xKEMPubKey).pub
		sk := &xKEMPrivKey{scheme: sk0.scheme, priv: sk0.priv}
		var wg sync.WaitGroup
		res := make([][]byte, 4)
		for g := 0; g < 4; g++ {
			wg.Add(1)
			go func(g int) { defer wg.Done(); res[g], _ = sk.Public().MarshalBinary() }(g)
		}
		wg.Wait()
		for g := range res {
			if string(res[g]) != string(want) {
				bad++
			}
		}
	}
	if bad > 0 {
		t.Fatalf("%d concurrent Public() calls returned a wrong public key", bad)
	}
}
