package bls

import "testing"

func TestZZTmpIdentitySig(t *testing.T) {
	ikm := make([]byte, 32)
	sk, _ := KeyGen[KeyG2SigG1](ikm, nil, nil)
	pk := sk.PublicKey()
	idSig := make([]byte, 48)
	idSig[0] = 0xc0
	if Verify(pk, []byte("any message"), idSig) {
		t.Error("identity signature verifies (G2 keys)")
	}
	sk1, _ := KeyGen[KeyG1SigG2](ikm, nil, nil)
	idSig2 := make([]byte, 96)
	idSig2[0] = 0xc0
	if Verify(sk1.PublicKey(), []byte("any message"), idSig2) {
		t.Error("identity signature verifies (G1 keys)")
	}
	if !Verify(pk, []byte("m"), Sign(sk, []byte("m"))) {
		t.Error("honest signature fails")
	}
}
