package x448

// Native demonstration of the C06 finding fixed by 29cac8b: copy into /repo/dh/x448 and run
// go test -run ZZ4L -v ./dh/x448/ (before the fix: ok=true with an all-zero output).

import (
	"math/big"
	"testing"
)

func TestZZ4L(t *testing.T) {
	l, _ := new(big.Int).SetString("181709681073901722637330951972001133588410340171829515070372549795146003961539585716195755291692375963310293709091662304773755859649779", 10)
	k := new(big.Int).Lsh(l, 2)
	var sec, pub, out, zero Key
	b := k.Bytes()
	for i := range b {
		sec[i] = b[len(b)-1-i]
	}
	pub[0] = 5
	ok := Shared(&out, &sec, &pub)
	if ok == (out == zero) {
		t.Fatalf("ok=%v out=%x", ok, out)
	}
}
