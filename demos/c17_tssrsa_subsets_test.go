package rsa

import (
	"crypto"
	"crypto/rand"
	"crypto/rsa"
	_ "crypto/sha256"
	"testing"
)

func TestZZTmpSubsets(t *testing.T) {
	key, _ := rsa.GenerateKey(rand.Reader, 1024)
	for _, c := range []struct {
		l, k uint
		pl   []int
	}{{3, 2, []int{1, 3}}, {3, 2, []int{2, 3}}, {5, 3, []int{1, 2, 4}}, {5, 3, []int{2, 4, 5}}, {7, 4, []int{1, 3, 5, 7}}} {
		shares, err := Deal(rand.Reader, c.l, c.k, key, false)
		if err != nil {
			t.Fatal(err)
		}
		msg := []byte("hello")
		pad, err := PadHash(&PKCS1v15Padder{}, crypto.SHA256, &key.PublicKey, msg)
		if err != nil {
			t.Fatal(err)
		}
		var ss []SignShare
		for _, p := range c.pl {
			s, err := shares[p-1].Sign(nil, &key.PublicKey, pad, false)
			if err != nil {
				t.Fatal(err)
			}
			ss = append(ss, s)
		}
		sig, err := CombineSignShares(&key.PublicKey, ss, pad)
		if err != nil {
			t.Errorf("%v of (%d,%d): %v", c.pl, c.l, c.k, err)
			continue
		}
		h := crypto.SHA256.New()
		h.Write(msg)
		if err := rsa.VerifyPKCS1v15(&key.PublicKey, crypto.SHA256, h.Sum(nil), sig); err != nil {
			t.Errorf("%v of (%d,%d): verify: %v", c.pl, c.l, c.k, err)
		}
	}
}
