package keccakf1600

// Native demonstration of the C15/C14 finding repaired by "fix: keccakf1600 StateX2/StateX4 Initialize ...":
// copy into /repo/simd/keccakf1600 and run go test -run ZZPristine ./simd/keccakf1600/ on an AVX2 machine
// (before the fix: SIGSEGV, VMOVDQA on a misaligned address after re-initialising a copied state).

import (
	"testing"
	"unsafe"
)

func TestZZPristineReinit(t *testing.T) {
	arr := make([]StateX4, 8)
	// find src with offset != 0 and dst with rem == 0
	src, dst := -1, -1
	for i := range arr {
		rem := int(uintptr(unsafe.Pointer(&arr[i].a[0]))&31) >> 3
		if rem != 0 && src < 0 {
			src = i
		}
		if rem == 0 && dst < 0 {
			dst = i
		}
	}
	t.Logf("src=%d dst=%d", src, dst)
	if src < 0 || dst < 0 {
		t.Skip()
	}
	arr[src].Initialize(false)
	arr[dst] = arr[src] // copy by value
	a := arr[dst].Initialize(false)
	t.Logf("offset=%d addr mod 32 = %d", arr[dst].offset, uintptr(unsafe.Pointer(&a[0]))&31)
	arr[dst].Permute()
}
