#!/usr/bin/env python3
"""Regenerates MANIFEST.json from the table below (kept in one place so that it stays valid)."""
import json, sys
CHECKS = {
 "C14": dict(
   text="The amd64 assembly of GF(2^255-19) (add, sub, mul, sqr, modp, cmov, cswap) and GF(2^448-2^224-1) (add, sub, addsub, mul, cmov, cswap), and the mulA24 routines of the X25519/X448 ladders, in both the legacy MULQ/ADCQ and the MULX/ADCX/ADOX variants selected by the CPU-feature byte, are executed symbolically from the assembler's own macro-expanded listing (go tool asm -S, regenerated from /repo on every run) and decided to meet the same contract as the portable Go bodies for every operand: congruent results mod p, modp bit-identical, cmov/cswap bit-identical; counterexamples are replayed natively against the real assembly with the feature byte forced. Default-build-only Go logic of P-384 (identity test of affine points, IsOnCurve comparison) is analysed under the default amd64 tags with the Montgomery kernels uninterpreted; multi-lane KangarooTwelve equals the specification. FourQ portable field kernels meet the reduced-output contract the assembly assumes. The portable Go kernels of both fields are held to the same contract in the same run (counterexamples in them are replayed with -tags purego).",
   note="Integer amd64 kernels only; fp448 squarings are attempted but unknown (tier=deep, not claimed); ladderStep/diffAdd/double, fourq, p384, csidh, sidh assembly, all AVX2/NEON code and arm64 are not covered; bit-identity of whole-primitive outputs across builds follows only for operations that canonicalise (ToBytes/Modp/IsZero).",
   ref="§4 C14"),
 "C18": dict(
   text="EMSA-PSS of the real blind-RSA code decided against RFC 8017 9.1.1/9.1.2 (what crypto/rsa.VerifyPSS implements) for EVERY encoded message (emBits mod 8 in {7,0,1}; data block of 34, 35 and exactly 64 bytes), encode byte for byte and encode-then-verify, real mgf1XOR; salt length given as PSSSaltLengthAuto (what the zero-salt variants pass) accepts exactly the EMs consistent for some salt length 0..emLen-hLen-2, incl. the maximal salt with an empty padding string (emBits 535; 536, 537 thorough); range checks: the PSS verifier and Finalize refuse signatures / blind signatures that are not below the modulus for every byte string (exponentiation and encoding check replaced by their most permissive behaviour).",
   note="Hash function is an uninterpreted function of its input bytes; toy moduli so that every byte is symbolic; RSA exponentiation, blinding algebra and the partially-blind key derivation are not covered (metadata aliasing of the latter is decided under C11).",
   ref="§4 C18"),
 "C20": dict(
   text="Access-structure level of CP-ABE decided by SMT: for every formula given by arbitrary gate tuples (class/in0/in1/out symbolic; 1 gate quick, 2 gates thorough) and every set of available input wires, Formula.satisfaction succeeds only on well-formed trees that evaluate to true, returns only available wires which by themselves satisfy the tree, and accepts every satisfiable well-formed tree. Leaf rule of Policy.Satisfaction (positive/negated x present/absent x equal/different x wild).",
   note="Pairing-based encapsulation/decapsulation algebra and the policy-language parser are not covered; larger formulas outside the bound.",
   ref="§4 C20"),
 "C16": dict(
   text="DLEQ proofs (zk/dleq) over an abstract group whose scalars are SMT reals: honest proofs verify for every key / randomness / batch (1, 2), altered components are refused unless the transcript hash collides; zk/qndleq: honest proof verifies and degenerate proofs are refused for every challenge value; OPRF Finalize hash input equals the RFC 9497 framing byte for byte (recorder hash) for every mode and input/info/element incl. empty info; NIST-curve scalar decoding is canonical (known finding: values >= N accepted). OPRF finalisation does not modify the stored blinds (finalising twice gives the same outputs). An evaluation whose proof is missing is refused with an error (no panic). Schnorr proofs of knowledge (zk/dl, RFC 8235): honest proofs verify for every witness, base, commitment randomness and context strings (0..2 bytes, 0..5 thorough); a proof with an altered base, statement element, commitment, response, user identifier or other-info string (also a byte moved between the two strings) is refused, under the random-oracle assumptions listed in the evidence; proving leaves the operands unchanged and a second proof from the same key object verifies. 1-out-of-2 oblivious transfer (ot/simot) over the abstract group: for both choice bits, every non-zero randomness and symbolic equal-length messages the receiver obtains exactly the chosen message and the key it derives does not open the other ciphertext.",
   note="Hash, hash-to-scalar and element encoding are uninterpreted functions; qndleq with a concrete 64-bit modulus; OT: SHAKE128 is a collision-free uninterpreted function and AES-GCM an ideal authenticated box; Schnorr soundness assumes away the 1/q event that the challenge of a new transcript hits the one value satisfying the verification equation; two known findings are listed in known_findings.json (qndleq security parameter taken from the proof; non-canonical P-curve scalars).",
   ref="§4 C16"),
 "C17": dict(
   text="Shamir/Feldman secret sharing (secretsharing + math/polynomial real generic code) over an abstract field (SMT reals, z3 nlsat): t = 1, 2 (3 thorough), every secret / coefficients / distinct non-zero identifiers: t+1 shares recover the secret, t or fewer are refused, dealt shares verify, altered ones do not; threshold RSA: the integer Lagrange coefficient computeLambda is exact (lambda*den == Delta*num) for every set of k distinct players out of l (l=5,k=2,3; l=7,k=4 thorough), decided on the real math/big code with symbolic player indices; computePolynomial = exact integer polynomial (k = 14, player indices up to 30, powers beyond 2^63); CombineSignShares raises exactly the shares it multiplies in to |2*lambda(T,0,j)| of one set T of >= k players (three shares of a (5,2) sharing, arbitrary distinct indices, modular exponentiation recorded). Signing (blinded or not) leaves the share and its cached exponent 2*Delta*s_i unchanged.",
   note="Abstract field of characteristic 0; element/scalar encodings not modelled; RSA exponentiation itself (Shoup's theorem) is an assumption; computeLambda for subsets whose products exceed 64 bits only shown natively.",
   ref="§4 C17"),
 "C01": dict(
   text="Decapsulation decided to be exactly the Fujisaki-Okamoto transform with implicit rejection for EVERY ciphertext and key: ML-KEM-512/768/1024 (FIPS 203 Alg. 18), Kyber-512/768/1024, FrodoKEM-640-SHAKE, and the X-Wing combiner binds every received byte; encaps-then-decaps returns the secret under the K-PKE correctness axiom; Frodo 15-bit pack/unpack round trip into a used buffer.",
   note="Glue level: K-PKE Enc/Dec, Frodo matrix products / sampler (memo functions), X25519 ladder and Keccak-p are uninterpreted; sponge, compare, selector, copy are real code; other hybrids and HPKE KEMs not covered; counterexamples are model-level.",
   ref="§4 C01"),
 "C09": dict(
   text="Canonical decoding decided by SMT for every input string: Ed25519 and Ed448-Goldilocks point decoding for whatever the square-root routine returns (range check sees the masked y, decoded x = +-root, reduced x has the encoded sign, x=0/sign=1 refused), isLessThan(y,p) = integer comparison, goldilocks.FromBytes unused bits, BLS12-381 G1/G2.SetBytes hand exactly the coordinate bytes to the field decoder (flag bits only), infinity/uncompressed flag rules, FourQ Fp/Fq decoding re-serialises identically (p refused), FourQ Point.Unmarshal accepted encodings re-serialise to the parsed bytes for whatever root fqSqrt returns within its sign contract (x = 0 with the sign bit set refused) and leave the input buffer unchanged, ML-KEM encapsulation-key modulus check (k=2,3,4).",
   note="Square roots, on-curve and subgroup tests are free values / uninterpreted (their mathematics is outside the technique); the FourQ square root itself (fqSqrt) is a contract stub; NIST-curve and ristretto decoders not covered.",
   ref="§4 C09"),
 "C11": dict(
   text="Histories: decode-into-used = decode-into-fresh (csidh keys, Goldilocks scalars, tss/rsa key shares, oprf private keys), operands unchanged (csidh DeriveSecret, Goldilocks scalar multiplications, partially-blind-RSA metadata buffer), P-curve Generator() independent of earlier results. Schedules: two goroutines, thread A suspended after each of its first 30 stores in turn, B runs to completion, A resumes, with sync.Mutex/Once modelled and a happens-before race detector: first Public()/PublicKey() of hpke X25519/X448, BLS, oprf keys, tss/rsa cached exponent vs MarshalBinary, marshalling a shared P-curve element. RFC 9380 expanders leave the backing array of the domain-separation tag untouched (tag = window of a larger buffer).",
   note="One preemption, two threads, store granularity; accesses inside intercepted library intrinsics are not tracked by the race detector; group data of the P-curve harnesses is concrete (math/big on symbolic values is out of reach); scalar multiplications are uninterpreted.",
   ref="§4 C11"),
 "C15": dict(
   text="KeccakF1600 (24 and 12 rounds) equals a FIPS 202 reference for an arbitrary state; sponge Write/Read step lemmas from an arbitrary absorbing state; KangarooTwelve equals the RFC 9861 tree-hash specification (transcribed over TurboSHAKE128) for padded lengths around the 8192-byte chunk boundary and around the rate, with and without customisation, and is independent of write splits and cloning; expand_message_xof equals RFC 9380 5.3.2 incl. the over-long DST rule and aborts above 65535 bytes. K12: a state Reset midway (past the first chunk, squeezed or not) hashes like a fresh one.",
   note="Permutation is an uninterpreted function above the permutation level (equalities hold by AC-normalised term identity or SMT); Ascon, BLAKE2X, expand_message_xmd, multi-lane K12 and SIMD permutations not covered.",
   ref="§4 C15"),
 "C13": dict(
   text="Integer mechanisms decided by SMT: ed25519 condAddOrderN, div2subY and one recoding step from an arbitrary state for every value; NIST-curve groups: Neg(identity) is the identity and -(-G) = G (concrete data, group picked).",
   note="Deliberately narrow: group law, exceptional cases, pairings and hash-to-curve are outside the technique.",
   ref="§4 C13"),
 "C19": dict(
   text="Prio3 decided for all parameter values / inputs: constructors of Sum (all 2^64 bounds), SumVec, Histogram, MultihotCountVec; Histogram measurement validation (refused iff >= length, one-hot otherwise, every 64-bit measurement); InvUint64 = Inv(SetUint64(x)) for every x (fp64, fp128) and the inverse table; field equality tests; PrepNext releases the output share iff the message carries the corrected joint-randomness seed (symbolic seeds). Field-element range check isInRange = integer comparison with p for every string (fp64, fp128); gadget calls = ceil(measurement length / chunk length) for Histogram, SumVec, MultihotCountVec; PrepSharesToPrep refuses every share count other than the number of aggregators.",
   note="Vector length bounds per harness; FLP circuits, sharding and end-to-end aggregates are not covered.",
   ref="§4 C19"),
 "C05": dict(
   text="Ed25519 scalar arithmetic decided by linear integer carry equations (red512 on every 256-bit and every < 2^320 input; one-upper-word cases thorough), isLessThanOrder = integer comparison; point decoding per RFC 8032 5.1.3 for whatever the square root returns (shared with C09), Ed448 likewise; VerifyPh/VerifyAny refuse contexts longer than 255 bytes. Ed448 isLessThanOrder(S) = (S < L) for every 57-byte string.",
   note="Full 512-bit red512 is attempted but unknown (tier=deep, not claimed); point arithmetic / group equation outside the technique.",
   ref="§4 C05"),
 "C06": dict(
   text="X25519/X448 input handling of the real Shared/clamp code for every scalar and peer value (clamping, reduction of u, success flag false for every all-zero ladder output and every small-order input and true otherwise - for whatever the ladder returns -, operands unchanged, canonical output) and the assembly mulA24 of both ladders (both CPU-feature variants) congruent to (A+2)/4 * x for every x. The X25519 / X448 component of kem/hybrid returns an error exactly when Shared reports failure and otherwise the value Shared produced (Shared stubbed with a free flag).",
   note="The Montgomery ladder is a recorder/uninterpreted function; ladderStep/diffAdd/double assembly not covered.",
   ref="§4 C06"),
 "C02": dict(
   text="Signature-decoding strictness on the real ML-DSA/Dilithium code of all six parameter sets: accepted iff the length is exactly SignatureSize (symbolic challenge and appended bytes), hint decoding equals FIPS 204 Alg. 21 (one accepted encoding per hint vector; shared with C04), eddilithium2/3 Verify refuse every wrong-length signature; Ed25519 fixed-base recoding lemmas. Hint index order (shared with C04) and the Ed25519 S < L range check (shared with C05).",
   note="Algebraic validity of honest signatures is outside the technique.",
   ref="§4 C02"),
 "C04": dict(
   text="Real ML-DSA/Dilithium code of all six parameter sets decided by SMT: hint decoding equals FIPS 204 Algorithm 21 on every (omega+k)-byte string within the hint-count bound; decompose/makeHint/useHint/power2round and the modular reductions over their entire domains; coefficient (un)packing; rejection samplers and SampleInBall over an arbitrary XOF stream; ExpandMask counter framing for every 16-bit kappa; control skeleton of the signing loop (an iteration is abandoned exactly for the four rejection conditions of the specification with the exact bounds, kappa advances by l; every outcome of every check symbolic, two iterations). Hint index order inside one polynomial (two or three hints, every index value incl. 255).",
   note="Bounds: hint switch-over points <= 1 (quick) / <= 2 (thorough); signing loop <= 2 iterations with arithmetic callees as no-ops (data flow between them not checked); SHAKE uninterpreted; NTT / end-to-end bytes for all seeds outside the technique.",
   ref="§4 C04"),
 "C07": dict(
   text="RFC 9180 §5.1 VerifyPSKInputs: the real verifyPSKInputs decided for all four modes (symbolic mode byte) and all presence combinations of psk / psk_id; LabeledExtract / LabeledExpand framing incl. the suite_id (HKDF recorder); Seal/Open nonce and counter step; Sender.Setup hands the KEM exactly the first Nsk bytes of the randomness stream whatever the reader's chunking (chunk sizes 1..Nsk+8) and fails, releasing no context, when the stream ends early.",
   note="KEM, HKDF and AEAD are uninterpreted / recorders; whole key-schedule transcripts for every suite are not covered.",
   ref="§4 C07"),
 "C03": dict(
   text="Bounded symbolic model checking of the real Kyber/ML-KEM arithmetic and codec code: barrettReduce/csubq/montReduce/toMont over their entire (documented) domains, CompressTo/Decompress for d in {1,4,5,10,11} and Pack/Unpack on whole symbolic polynomials against FIPS 203 Compress_d/Decompress_d/ByteEncode_d written with exact division and bit-by-bit packing.",
   note="Decides the kernels and codecs only (not end-to-end bytes for all seeds, which needs SHAKE over symbolic data); generic (purego) code paths; AVX2 back-ends outside; go/ssa and executor semantics trusted.",
   ref="§4 C03"),
 "C08": dict(
   text="Bounded symbolic model checking of the real hpke Seal/Open/increment/calcNonce code: one step from an arbitrary 96-bit sequence number and base nonce (all values symbolic) decided by z3/cvc5; induction over the step covers histories of any length. A Seal or Open that fails at the maximum sequence number leaves the counter at the maximum.",
   note="AEAD modelled as uninterpreted function with free success flag; Nn=12; plaintext lengths 0..2; go/ssa (x/tools v0.29.0) and the executor's instruction semantics are trusted; purego build tags.",
   ref="§4 C08"),
 "C10": dict(
   text="Panic-freedom obligations (index, slice bounds, nil dereference, division, explicit panic) decided by SMT for untrusted-input entry points on symbolic byte strings of every length in a stated range: hpke context/KEM unmarshalling, Goldilocks points, ML-DSA hints, BLS12-381 points, csidh keys, tkn formulas, eddilithium verification, tss/rsa key shares, NIST-curve scalars, prio3 histogram measurements; counterexamples replayed natively. OPRF Finalize with a missing proof returns an error.",
   note="Input lengths bounded per harness; field arithmetic below decoders is uninterpreted.",
   ref="§4 C10"),
 "C12": dict(
   text="For GF(2^255-19) and GF(2^448-2^224-1): add, sub, neg, addsub, mul, sqr, red64, modp, IsZero/IsOne, ToBytes, cmov, cswap of the real generic code, and the amd64 assembly mul/sqr (fp25519) and mul (fp448), congruent/canonical for every byte string via linear-integer carry equations; Goldilocks scalars (Red, IsZero, Add, Sub, Neg, FromBytes <= 64 bytes, word lemmas); fp64/fp128 add, sub, equality, fp64 mul. FourQ portable GF(2^127-1) add/sub/mul: congruent and below 2^127 for all operands. Prio3 fields: InvTwoN(n) * 2^n = 1 for every admitted exponent (bounded symbolic n).",
   note="64x64 partial products are shared bounded integers (sound for unsat; counterexamples concretised when possible); Montgomery multiplications (BLS12-381, fp128, CSIDH, P-384), FourQ and goldilocks full scalar Mul are not decided (the latter is tier=deep).",
   ref="§4 C12"),
}
NOT_APPLICABLE = {}
def main():
    props=[json.loads(l)["id"] for l in open("/verif/properties.jsonl")]
    m={"version":1,
       "setup_cmd":"cd /verif/engine && GOFLAGS=-mod=mod GOPROXY=off GOSUMDB=off GOTOOLCHAIN=local go build -o /verif/bin/gosmt . && cd /verif && ./bin/gosmt list >/dev/null",
       "hooks":{"guard":"verif","enable":"none needed: harnesses and intrinsics are injected as go/packages overlays (never written into /repo)",
                "baseline_off_cmd":"cd /repo && GOFLAGS=-mod=mod go test -vet=off -count=1 -timeout 25m ./...",
                "source_commits":[],"add_only":True},
       "engines":[{"name":"gosmt","path":"/verif/engine","serves_properties":sorted(CHECKS),
                   "kind_free_text":"bounded symbolic executor over go/ssa producing SMT-LIB2 (QF_BV / LIA carry equations / NRA), decided by z3 4.8.12, z3 5.1, cvc5; counterexamples replayed natively via go test -overlay"}],
       "checks":[], "not_applicable":[], "notes":"See DESIGN.md. Exit codes: 0 held, 1 VIOLATION, 2 inconclusive/tooling."}
    for p in props:
        if p in CHECKS:
            c=CHECKS[p]
            m["checks"].append({"property_id":p,"quick_cmd":f"./check {p} --tier quick","thorough_cmd":f"./check {p} --tier thorough",
              "evidence_file":f"/verif/evidence/{p}.json","replay_cmd_template":"./check --replay {path}","engine":"gosmt",
              "level_claimed":{"category":"model_checking","text":c["text"],"design_ref":c["ref"]},
              "level_note":c["note"],"technique":c.get("technique","go/ssa -> SMT bounded symbolic execution (z3/cvc5)")})
        else:
            m["not_applicable"].append({"property_id":p,"reason":NOT_APPLICABLE.get(p,"not yet claimed: harnesses for this property are still being built in this session (see DESIGN.md §4 for the plan)")})
    json.dump(m,open("/verif/MANIFEST.json","w"),indent=1)
main()
