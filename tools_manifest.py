#!/usr/bin/env python3
"""Regenerates MANIFEST.json from the table below (kept in one place so that it stays valid)."""
import json, sys
CHECKS = {
 "C14": dict(
   text="The amd64 assembly bodies of GF(2^255-19) arithmetic (add, sub, mul, sqr, modp, cmov, cswap; both the legacy MULQ/ADCQ and the MULX/ADCX/ADOX variants selected by the CPU-feature byte) are executed symbolically from the assembler's own macro-expanded listing (go tool asm -S, regenerated from /repo on every run) and decided to meet the same contract as the portable Go bodies for every operand: congruent results mod p, modp bit-identical to the Go body, cmov/cswap bit-identical; counterexamples are replayed natively with the feature byte forced.",
   note="Deliberately narrow: integer amd64 kernels of fp25519 so far (fp448/x25519/x448/fourq/p384/sidh assembly, all AVX2/NEON code and arm64 are not covered); bit-identity of whole-primitive outputs across builds follows only for operations that canonicalise (ToBytes/Modp/IsZero).",
   ref="§4 C14"),
 "C18": dict(
   text="EMSA-PSS of the real blind-RSA code decided against RFC 8017 §9.1.1/§9.1.2 (the algorithm crypto/rsa.VerifyPSS implements): emsaPSSVerify accepts exactly the encoded messages the RFC calls consistent, for EVERY EM byte string (emBits mod 8 in {7,0,1}, salted and salt-length-equals-hash variants), emsaPSSEncode produces maskedDB||H||0xbc byte for byte and its output verifies; real mgf1XOR counter logic.",
   note="Hash function is an uninterpreted function of its input bytes; small moduli (emLen 67..68) so that every EM byte is symbolic; RSA exponentiation, blinding and the partially-blind key derivation not yet covered.",
   ref="§4 C18"),
 "C20": dict(
   text="Access-structure level of CP-ABE decided by SMT: for every formula given by arbitrary gate tuples (class/in0/in1/out symbolic; 1 gate quick, 2 gates thorough) and every set of available input wires, Formula.satisfaction succeeds only on well-formed trees that evaluate to true, returns only available wires which by themselves satisfy the tree, and accepts every satisfiable well-formed tree.",
   note="Pairing-based encapsulation/decapsulation algebra and the policy-language parser are not covered; larger formulas outside the bound.",
   ref="§4 C20"),
 "C16": dict(
   text="DLEQ proofs (zk/dleq, the proof system of the verifiable OPRF modes) run over an abstract group whose scalars are SMT reals: for every key, randomness, generator and batch (1 and 2 elements, all exponents symbolic) the honest proof verifies - the verifier's recomputed commitments equal the prover's as polynomial identities and the challenge is recomputed from the same transcript (hash, hash-to-scalar and element encoding as uninterpreted functions).",
   note="Completeness only; rejection of tampered proofs holds modulo hash collisions and is not claimed; OPRF blinding, qndleq, Schnorr and OT not yet covered; characteristic-0 model of the scalar field (identities with the same non-zero denominators transfer to every field).",
   ref="§4 C16"),
 "C17": dict(
   text="Shamir/Feldman secret sharing (secretsharing + math/polynomial real generic code) over an abstract field (SMT reals, z3 nlsat): for thresholds t=1,2 (3 thorough), every secret, every coefficient vector and every choice of distinct non-zero share identifiers (all symbolic), any t+1 shares recover exactly the secret, t or fewer are refused, every dealt share verifies against the commitment, a share with altered value, a zero identifier or a commitment of the wrong length is refused.",
   note="Abstract field of characteristic 0; threshold RSA not yet covered; element/scalar encodings not modelled (areAllDifferent is replaced by pairwise inequality).",
   ref="§4 C17"),
 "C01": dict(
   text="ML-KEM-512/768/1024 and Kyber-512/768/1024 decapsulation decided to be exactly the Fujisaki-Okamoto transform of FIPS 203 Alg. 18 / Kyber r3 Alg. 9 for EVERY ciphertext (all ciphertext bytes symbolic), incl. the implicit-rejection branch, the constant-time compare over all bytes and the conditional copy; encaps-then-decaps returns the secret for every seed under the K-PKE correctness axiom.",
   note="Glue level: K-PKE Enc/Dec and the Keccak permutation are uninterpreted functions (the sponge code above the permutation is real); hybrids, X-Wing, Frodo and HPKE KEMs not yet covered; counterexamples are model-level (not natively replayable).",
   ref="§4 C01"),
 "C09": dict(
   text="Canonical decoding decided by SMT: goldilocks.FromBytes accepts only inputs that re-serialise to the parsed bytes (symbolic last byte and trailing bytes around a concrete valid y), its y-range check equals integer comparison with p for every 56-byte string, and the ML-KEM encapsulation-key check accepts exactly the keys whose 12-bit coefficients are all < q (k = 2,3,4) and re-encodes accepted keys identically.",
   note="Subgroup / on-curve mathematics is outside the technique; BLS12-381, FourQ and NIST-curve decoders not yet covered for canonicity (their panic-freedom is under C10).",
   ref="§4 C09"),
 "C11": dict(
   text="Decode-into-used-object equals decode-into-fresh-object decided for all pre-states and inputs (csidh public/private key import); more frame conditions planned.",
   note="Sequential frame/stale-state conditions only; data races in the Go-memory-model sense are outside the technique.",
   ref="§4 C11"),
 "C15": dict(
   text="KeccakF1600 (24 and 12 rounds) equals a Keccak-p[1600] reference written from FIPS 202 (rho/pi from their recurrences, round constants from the rc(t) LFSR) for an arbitrary 1600-bit state; sponge step lemmas from an ARBITRARY absorbing state (arbitrary lanes, buffer fill and buffered bytes): Write equals byte-wise absorption (any chunking by induction), first Read pads with the domain byte and 0x80 and squeezes like the byte-wise sponge, for rates 136/168 (others thorough).",
   note="Permutation is an uninterpreted function in the sponge lemmas; equalities hold by AC-normalised term identity or SMT; Ascon, K12, BLAKE2X, expanders and SIMD permutations not yet covered; generic xor.go selected by build tag appengine (the unaligned variant uses unsafe).",
   ref="§4 C15"),
 "C13": dict(
   text="Scalar-recoding mechanisms of fixed-base multiplication decided by SMT: ed25519 condAddOrderN, div2subY and one recoding step from an arbitrary state (m = 2m' + digit, no borrow lost), for every value; the algebraic group law is not claimed.",
   note="Deliberately narrow: only integer recoding mechanisms (DESIGN §4 C13); group law, exceptional cases, pairings and hash-to-curve are outside the technique.",
   ref="§4 C13"),
 "C19": dict(
   text="Prio3 constructors decided for all parameter values: Sum (all 2^64 bounds: error or bits/offset exact and 2^bits below the field modulus), SumVec, Histogram, MultihotCountVec (no panic, degenerate parameters are errors, derived lengths).",
   note="Bounds: vector length < 2^12..2^20 as stated per harness; encode/decode/circuit clauses not yet covered.",
   ref="§4 C19"),
 "C05": dict(
   text="Ed25519 scalar arithmetic of the real code decided by SMT (linear integer carry equations): red512 on every 256-bit input and on every input below 2^320 (quick; full 512-bit in the thorough tier), isLessThanOrder equals integer comparison with L for every 32-byte string.",
   note="Point arithmetic / group equation outside the technique; Ed448 scalars are checked under C12 (goldilocks).",
   ref="§4 C05"),
 "C06": dict(
   text="X25519/X448 input handling of the real Shared/clamp code decided for every scalar and every peer value: clamping equals RFC 7748 decodeScalar, the ladder receives u mod 2^255 (resp. u) and the clamped scalar, and the flag is false exactly when the residue mod p is one of the small-order u-coordinates (real fp Modp carry chain + table compare), operands unchanged.",
   note="The Montgomery ladder is replaced by a recorder/uninterpreted function: that the ladder computes scalar multiplication and yields zero exactly for small-order inputs is curve theory (assumed).",
   ref="§4 C06"),
 "C02": dict(
   text="Signature-decoding strictness decided by SMT on the real ML-DSA/Dilithium unpackedSignature.Unpack of all six parameter sets: symbolic challenge bytes and appended bytes around a concrete valid body; accepted iff the length is exactly SignatureSize; truncations refused. (Hint-decoding canonicity is decided under C04.)",
   note="Covers the length/shape clause for the six ML-DSA/Dilithium packages so far; algebraic validity of honest signatures is outside the technique.",
   ref="§4 C02"),
 "C04": dict(
   text="Hint decoding of all six ML-DSA/Dilithium parameter sets equals FIPS 204 Algorithm 21 (HintBitUnpack) on every (omega+k)-byte string within the stated hint-count bound: same verdict and same vector; decided by bounded symbolic execution with case split on switch-over points.",
   note="Bound: switch-over points <= 1 (quick) / <= 2 (thorough); rounding/packing kernels being added.",
   ref="§4 C04"),
 "C07": dict(
   text="RFC 9180 §5.1 VerifyPSKInputs: the real verifyPSKInputs decided for all four modes (symbolic mode byte) and all presence combinations of psk / psk_id.",
   note="Only the PSK-input rule so far; key-schedule transcripts need the hash model (planned).",
   ref="§4 C07"),
 "C03": dict(
   text="Bounded symbolic model checking of the real Kyber/ML-KEM arithmetic and codec code: barrettReduce/csubq/montReduce/toMont over their entire (documented) domains, CompressTo/Decompress for d in {1,4,5,10,11} and Pack/Unpack on whole symbolic polynomials against FIPS 203 Compress_d/Decompress_d/ByteEncode_d written with exact division and bit-by-bit packing.",
   note="Decides the kernels and codecs only (not end-to-end bytes for all seeds, which needs SHAKE over symbolic data); generic (purego) code paths; AVX2 back-ends outside; go/ssa and executor semantics trusted.",
   ref="§4 C03"),
 "C08": dict(
   text="Bounded symbolic model checking of the real hpke Seal/Open/increment/calcNonce code: one step from an arbitrary 96-bit sequence number and base nonce (all values symbolic) decided by z3/cvc5; induction over the step covers histories of any length.",
   note="AEAD modelled as uninterpreted function with free success flag; Nn=12; plaintext lengths 0..2; go/ssa (x/tools v0.29.0) and the executor's instruction semantics are trusted; purego build tags.",
   ref="§4 C08"),
 "C10": dict(
   text="Panic-freedom obligations (index, slice bounds, nil dereference, explicit panic) decided by SMT for untrusted-input entry points run on symbolic byte strings of every length in a stated range; counterexamples replayed natively.",
   note="Entry points covered so far are listed in evidence; input lengths bounded per harness; field arithmetic below decoders is an uninterpreted function (its inputs are fixed-size arrays).",
   ref="§4 C10"),
 "C12": dict(
   text="For GF(2^255-19): add, sub, neg, addsub, mul, sqr, red64, modp, IsZero, ToBytes, cmov, cswap of the real generic code proved congruent/canonical for every byte string via linear-integer carry equations (64x64 partial products as shared bounded integers).",
   note="Partial products abstracted (sound for unsat; abstract counterexamples are concretised when possible); generic Go code only so far (assembly: see C14); other fields are being added.",
   ref="§4 C12"),
}
NOT_APPLICABLE = {}
def main():
    props=[json.loads(l)["id"] for l in open("/verif/properties.jsonl")]
    m={"version":1,
       "setup_cmd":"cd /verif/engine && GOFLAGS=-mod=mod GOPROXY=off GOSUMDB=off GOTOOLCHAIN=local go build -o /verif/bin/gosmt . && cd /verif && ./bin/gosmt list >/dev/null",
       "hooks":{"guard":"verif","enable":"none needed: harnesses and intrinsics are injected as go/packages overlays (never written into /repo)",
                "baseline_off_cmd":"cd /repo && GOFLAGS=-mod=mod go test -vet=off -count=1 -timeout 25m ./...",
                "source_commits":[],"add_only":True},
       "engines":[{"name":"gosmt","path":"/verif/engine","serves_properties":sorted(CHECKS),
                   "kind_free_text":"bounded symbolic executor over go/ssa producing SMT-LIB2 (QF_BV / LIA carry equations / NRA), decided by z3 4.8.12, z3 5.1, cvc5; counterexamples replayed natively via go test -overlay"}],
       "checks":[], "not_applicable":[], "notes":"See DESIGN.md. Exit codes: 0 held, 1 VIOLATION, 2 inconclusive/tooling."}
    for p in props:
        if p in CHECKS:
            c=CHECKS[p]
            m["checks"].append({"property_id":p,"quick_cmd":f"./check {p} --tier quick","thorough_cmd":f"./check {p} --tier thorough",
              "evidence_file":f"/verif/evidence/{p}.json","replay_cmd_template":"./check --replay {path}","engine":"gosmt",
              "level_claimed":{"category":"model_checking","text":c["text"],"design_ref":c["ref"]},
              "level_note":c["note"],"technique":c.get("technique","go/ssa -> SMT bounded symbolic execution (z3/cvc5)")})
        else:
            m["not_applicable"].append({"property_id":p,"reason":NOT_APPLICABLE.get(p,"not yet claimed: harnesses for this property are still being built in this session (see DESIGN.md §4 for the plan)")})
    json.dump(m,open("/verif/MANIFEST.json","w"),indent=1)
main()
