package p384

import "math/big"

// C14/C09 (default amd64 build of P-384; this harness root is loaded WITHOUT the purego tag, the
// Montgomery assembly kernels are uninterpreted functions, set "fp384uf"): the Go logic that exists
// only in the optimised build agrees with what the portable build (crypto/elliptic) does:
//  - an affine point is treated as the point at infinity iff both coordinates are zero;
//  - IsOnCurve accepts iff y^2 and x^3 - 3x + b agree in every limb.

//zz:replace ecc/p384.fp384Mul set=fp384uf
func zzStubFp384Mul(c, a, b *fp384) { zzUFObj("fp384.mul", c, a, b) }

//zz:replace ecc/p384.fp384Add set=fp384uf
func zzStubFp384Add(c, a, b *fp384) { zzUFObj("fp384.add", c, a, b) }

//zz:replace ecc/p384.fp384Sub set=fp384uf
func zzStubFp384Sub(c, a, b *fp384) { zzUFObj("fp384.sub", c, a, b) }

//zz:replace ecc/p384.fp384Neg set=fp384uf
func zzStubFp384Neg(c, a *fp384) { zzUFObj("fp384.neg", c, a) }

//zz: prop=C14 also=C09,C13 tier=quick backend=bv timeout=120
func ZZ_C14_p384_affine_isZero_exact() {
	var ap affinePoint
	zzFill("x", &ap.x)
	zzFill("y", &ap.y)
	zero := fp384{}
	zzAssert(zzIff(ap.isZero(), zzAnd2(ap.x == zero, ap.y == zero)), "isZero iff both coordinates are zero (a point with x = 0 only is a finite point)")
}

//zz: prop=C14 also=C09 tier=quick backend=bv use=fp384uf timeout=300
func ZZ_C14_p384_IsOnCurve_compares_all_limbs() {
	if !zzSymbolic() {
		zzModelOnly() // field kernels are uninterpreted here
	}
	x, y := big.NewInt(5), big.NewInt(7)
	got := curve{}.IsOnCurve(x, y)
	// the same computation, transcribed, with a full comparison
	x1, y1 := &fp384{}, &fp384{}
	x1.SetBigInt(x)
	y1.SetBigInt(y)
	montEncode(x1, x1)
	montEncode(y1, y1)
	y2, x3, t := &fp384{}, &fp384{}, &fp384{}
	fp384Sqr(y2, y1)
	fp384Sqr(x3, x1)
	fp384Mul(x3, x3, x1)
	fp384Add(t, x1, x1)
	fp384Add(t, t, x1)
	fp384Sub(x3, x3, t)
	fp384Add(x3, x3, &bb)
	same := []bool{}
	for i := range y2 {
		same = append(same, y2[i] == x3[i])
	}
	zzAssert(zzIff(got, zzAnd(same...)), "IsOnCurve iff y^2 = x^3 - 3x + b in every limb")
}
