package p384

import "math/big"

// C14/C09 (default amd64 build of P-384; this harness root is loaded WITHOUT the purego tag, the
// Montgomery assembly kernels are uninterpreted functions, set "fp384uf"): the Go logic that exists
// only in the optimised build agrees with what the portable build (crypto/elliptic) does:
//  - an affine point is treated as the point at infinity iff both coordinates are zero;
//  - IsOnCurve accepts iff y^2 and x^3 - 3x + b agree in every limb.

//zz:replace ecc/p384.fp384Mul set=fp384uf
func zzStubFp384Mul(c, a, b *fp384) { zzUFObj("fp384.mul", c, a, b) }

//zz:replace ecc/p384.fp384Add set=fp384uf
func zzStubFp384Add(c, a, b *fp384) { zzUFObj("fp384.add", c, a, b) }

//zz:replace ecc/p384.fp384Sub set=fp384uf
func zzStubFp384Sub(c, a, b *fp384) { zzUFObj("fp384.sub", c, a, b) }

//zz:replace ecc/p384.fp384Neg set=fp384uf
func zzStubFp384Neg(c, a *fp384) { zzUFObj("fp384.neg", c, a) }

//zz: prop=C14 also=C09,C13 tier=quick backend=bv timeout=120
func ZZ_C14_p384_affine_isZero_exact() {
	var ap affinePoint
	zzFill("x", &ap.x)
	zzFill("y", &ap.y)
	zero := fp384{}
	zzAssert(zzIff(ap.isZero(), zzAnd2(ap.x == zero, ap.y == zero)), "isZero iff both coordinates are zero (a point with x = 0 only is a finite point)")
}

//zz: prop=C14 also=C09 tier=quick backend=bv use=fp384uf timeout=300
func ZZ_C14_p384_IsOnCurve_compares_all_limbs() {
	if !zzSymbolic() {
		zzModelOnly() // field kernels are uninterpreted here
	}
	x, y := big.NewInt(5), big.NewInt(7)
	got := curve{}.IsOnCurve(x, y)
	// the same computation, transcribed, with a full comparison
	x1, y1 := &fp384{}, &fp384{}
	x1.SetBigInt(x)
	y1.SetBigInt(y)
	montEncode(x1, x1)
	montEncode(y1, y1)
	y2, x3, t := &fp384{}, &fp384{}, &fp384{}
	fp384Sqr(y2, y1)
	fp384Sqr(x3, x1)
	fp384Mul(x3, x3, x1)
	fp384Add(t, x1, x1)
	fp384Add(t, t, x1)
	fp384Sub(x3, x3, t)
	fp384Add(x3, x3, &bb)
	same := []bool{}
	for i := range y2 {
		same = append(same, y2[i] == x3[i])
	}
	zzAssert(zzIff(got, zzAnd(same...)), "IsOnCurve iff y^2 = x^3 - 3x + b in every limb")
}

// C11 (default build): the coordinates returned by the optimised P-384 curve operations are fresh
// big integers - they share no storage with the operands - for every combination of the identity
// (0,0) and a finite point as operands; so modifying a result never changes an operand (group
// elements of group.P384 keep the returned pointers).  Field kernels uninterpreted.

// memo variant of the kernels (set "fp384memo": fresh values, identical for identical inputs) for
// harnesses whose paths branch on field values (zero tests): keeps the feasibility queries trivial

//zz:replace ecc/p384.fp384Mul set=fp384memo
func zzMemoFp384Mul(c, a, b *fp384) { zzMemoObj("fp384.mul", c, a, b) }

//zz:replace ecc/p384.fp384Add set=fp384memo
func zzMemoFp384Add(c, a, b *fp384) { zzMemoObj("fp384.add", c, a, b) }

//zz:replace ecc/p384.fp384Sub set=fp384memo
func zzMemoFp384Sub(c, a, b *fp384) { zzMemoObj("fp384.sub", c, a, b) }

//zz:replace ecc/p384.fp384Neg set=fp384memo
func zzMemoFp384Neg(c, a *fp384) { zzMemoObj("fp384.neg", c, a) }

//zz:replace ecc/p384.fp384Cmov set=fp384memo
func zzStubFp384Cmov(x, y *fp384, b int) {
	if b != 0 {
		*x = *y
	}
}

//zz: prop=C11 also=C14 tier=quick backend=bv use=fp384memo timeout=300 maxpaths=4000 budget=600
func ZZ_C11_p384_results_share_no_storage_with_operands() {
	if !zzSymbolic() {
		zzModelOnly()
	}
	pts := [][2]*big.Int{{big.NewInt(0), big.NewInt(0)}, {big.NewInt(5), big.NewInt(7)}}
	a := pts[zzPick("first", 0, 1)]
	second := pts[zzPick("second", 0, 1)]
	b := [2]*big.Int{new(big.Int).Set(second[0]), new(big.Int).Set(second[1])}
	var rx, ry *big.Int
	switch zzPick("operation", 0, 1) {
	case 0:
		rx, ry = curve{}.Add(a[0], a[1], b[0], b[1])
	case 1:
		rx, ry = curve{}.Double(a[0], a[1])
	}
	zzAssert(rx != a[0] && rx != a[1] && rx != b[0] && rx != b[1] && ry != a[0] && ry != a[1] && ry != b[0] && ry != b[1] && rx != ry,
		"the returned coordinates are distinct objects from every operand coordinate")
}

// C13 (default build): scalar multiplication by a scalar that is a non-zero byte string but zero
// modulo the group order (N, 2N, N with leading zero bytes, N shifted by whole bytes) returns the
// point at infinity and does not panic; the all-zero strings likewise.

//zz: prop=C13 also=C14 tier=quick backend=bv use=fp384memo timeout=300
func ZZ_C13_p384_scalar_mult_by_multiples_of_the_order() {
	if !zzSymbolic() {
		zzModelOnly()
	}
	n := curve{}.Params().N
	var k []byte
	switch zzPick("scalar", 0, 1, 2, 3, 4) {
	case 0:
		k = n.Bytes()
	case 1:
		k = new(big.Int).Lsh(n, 1).Bytes()
	case 2:
		k = append([]byte{0, 0}, n.Bytes()...)
	case 3:
		k = append(n.Bytes(), make([]byte, 48)...)
	case 4:
		k = make([]byte, 5)
	}
	x, y := curve{}.ScalarMult(big.NewInt(5), big.NewInt(7), k)
	zzAssert(x.Sign() == 0 && y.Sign() == 0, "k = 0 mod N gives the point at infinity")
}
