import time, sys
from z3 import *
P = 2**255-19
def add64(x,y,c):
    s = ZeroExt(1,x)+ZeroExt(1,y)+ZeroExt(1,c)
    return Extract(63,0,s), ZeroExt(63,Extract(64,64,s))
def sub64(x,y,b):
    d = ZeroExt(1,x)-ZeroExt(1,y)-ZeroExt(1,b)
    return Extract(63,0,d), ZeroExt(63,Extract(64,64,d))
def mulc(x,c):
    p = ZeroExt(64,x)*BitVecVal(c,128)
    return Extract(127,64,p), Extract(63,0,p)
Z=BitVecVal(0,64)
def neg(c): return -c
def red64(x):
    x0,x1,x2,x3,x4,x5,x6,x7 = x
    h0,l0=mulc(x4,38);h1,l1=mulc(x5,38);h2,l2=mulc(x6,38);h3,l3=mulc(x7,38)
    l1,c0=add64(h0,l1,Z);l2,c1=add64(h1,l2,c0);l3,c2=add64(h2,l3,c1);l4,_=add64(h3,Z,c2)
    l0,c0=add64(l0,x0,Z);l1,c1=add64(l1,x1,c0);l2,c2=add64(l2,x2,c1);l3,c3=add64(l3,x3,c2);l4,_=add64(l4,Z,c3)
    _,l4=mulc(l4,38)
    l0,c0=add64(l0,l4,Z);z1,c1=add64(l1,Z,c0);z2,c2=add64(l2,Z,c1);z3,c3=add64(l3,Z,c2)
    z0,_=add64(l0,(-c3)&38,Z)
    return [z0,z1,z2,z3]
def wide(limbs,w):
    acc=BitVecVal(0,w)
    for i,l in enumerate(limbs):
        acc = acc + (ZeroExt(w-64,l) << (64*i))
    return acc
x=[BitVec('x%d'%i,64) for i in range(8)]
z=red64(x)
W=520
X=wide(x,W); Zw=wide(z,W)
mode=sys.argv[1]
s=SolverFor('QF_BV') if mode!='int' else Solver()
if mode=='urem':
    s.add(URem(X,BitVecVal(P,W)) != URem(Zw,BitVecVal(P,W)))
elif mode=='fold':
    # X = hi*2^256+lo ; X ≡ lo+38hi (mod 2p) ; spec: exists k small: Zw + k*(2^256-38) == lo+38*hi  with k in 0..2
    lo=wide(x[:4],W); hi=wide(x[4:],W)
    t=lo+hi*38
    M=BitVecVal(2**256-38,W)
    s.add(And(Zw!=t, Zw+M!=t, Zw+M+M!=t, Zw + M+M+M != t))
t0=time.time()
print(s.check(), time.time()-t0)
