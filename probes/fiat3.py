import re, sys, time
from z3 import *
B=2**64
src=open(sys.argv[3]).read()
fn=sys.argv[1]
NL=int(sys.argv[4])
body=src[src.index('func %s('%fn):]
body=body[:body.index('\n}\n')]
m_=int(sys.argv[5],16)
s=Solver()
cnt=[0]
def fresh(n,hi):
    cnt[0]+=1; v=Int('%s_%d'%(n,cnt[0])); s.add(v>=0,v<=hi); return v
env={}
a1=[Int('a%d'%i) for i in range(NL)]; a2=[Int('b%d'%i) for i in range(NL)]
for v in a1+a2: s.add(v>=0,v<B)
prods={}
def val(t):
    t=t.strip()
    while t.startswith('uint64(') and t.endswith(')'): t=t[7:-1].strip()
    while t.startswith('(') and t.endswith(')'): t=t[1:-1].strip()
    m=re.match(r'arg([12])\[(\d)\]$',t)
    if m: return (a1 if m.group(1)=='1' else a2)[int(m.group(2))]
    if re.match(r'0x[0-9a-f]+$',t): return int(t,16)
    if re.match(r'x\d+$',t): return env[t]
    raise Exception('val? '+t)
def mul64(x,y):
    if isinstance(y,int) or isinstance(x,int):
        if isinstance(x,int): x,y=y,x
        hi=fresh('hi',y); lo=fresh('lo',B-1); s.add(x*y==hi*B+lo); return hi,lo
    key=tuple(sorted([str(x),str(y)]))
    if key not in prods:
        m=Int('M_%s_%s'%key); s.add(m>=0,m<=(B-1)*(B-1)); prods[key]=m
    m=prods[key]; hi=fresh('hi',B-2); lo=fresh('lo',B-1); s.add(m==hi*B+lo); return hi,lo
dropped=[]
for line in body.split('\n')[1:]:
    line=line.strip()
    if not line or line.startswith('var '): continue
    m=re.match(r'(\w+), (\w+) = bits\.(Mul64|Add64|Sub64)\((.*)\)$',line)
    if m:
        o1,o2,op,args=m.groups()
        # split args at top-level commas
        parts=[];d=0;cur=''
        for ch in args:
            if ch=='(':d+=1
            if ch==')':d-=1
            if ch==',' and d==0: parts.append(cur);cur=''
            else: cur+=ch
        parts.append(cur)
        vs=[val(p) for p in parts]
        if op=='Mul64':
            hi,lo=mul64(vs[0],vs[1]); r1,r2=hi,lo
        elif op=='Add64':
            lo=fresh('lo',B-1); cy=fresh('c',1); s.add(vs[0]+vs[1]+vs[2]==lo+B*cy); r1,r2=lo,cy
        else:
            lo=fresh('lo',B-1); bw=fresh('b',1); s.add(vs[0]-vs[1]-vs[2]==lo-B*bw); r1,r2=lo,bw
        if o1!='_': env[o1]=r1
        elif op!='Mul64': dropped.append(r1)
        if o2!='_': env[o2]=r2
        elif op!='Mul64': dropped.append(r2)
        continue
    m=re.match(r'(x\d+) := (.*)$',line)
    if m:
        name,e=m.groups(); e=e.strip()
        mm=re.match(r'\((.*) \+ (.*)\)$',e)
        if mm:
            x,y=val(mm.group(1)),val(mm.group(2)); lo=fresh('lo',B-1); k=fresh('k',1); s.add(x+y==lo+B*k); dropped.append(k); env[name]=lo
        else: env[name]=val(e)
        continue
    m=re.match(r'fiat\w+CmovznzU64\(&(x\d+), (x\d+), (.*), (.*)\)$',line)
    if m:
        o,c,a,b=m.groups(); env[o]=If(env[c]==0,val(a),val(b)); continue
    m=re.match(r'out1\[(\d)\] = (x\d+)$',line)
    if m: env['out%s'%m.group(1)]=env[m.group(2)]; continue
    raise Exception('line? '+line)
out=[env['out%d'%i] for i in range(NL)]
ev=lambda v: sum(x*B**i for i,x in enumerate(v))
s.add(ev(a1)<m_, ev(a2)<m_)
spec=sum(prods[tuple(sorted([str(a1[i]),str(a2[j])]))]*B**(i+j) for i in range(NL) for j in range(NL))
s.add(spec<=(m_-1)*(m_-1))
mode=sys.argv[2]
if mode=='cong': s.add((ev(out)*B**NL-spec)%m_!=0)
elif mode=='range': s.add(ev(out)>=m_)
elif mode=='both': s.add(Or((ev(out)*B**NL-spec)%m_!=0, ev(out)>=m_))
print(len(prods),'products',cnt[0],'fresh vars',len(dropped),'discarded',flush=True)
if mode=='two':
    ok=[]
    for i,d in enumerate(dropped):
        s.push(); s.add(d!=0); s.set('timeout',60000); t0=time.time(); r=s.check(); print(' discarded',i,r,round(time.time()-t0,2),flush=True); s.pop()
        if r==unsat: ok.append(d)
    for d in ok: s.add(d==0)
    s.set('timeout',600000)
    s.add((ev(out)*B**NL-spec)%m_!=0)
t0=time.time(); print(fn,mode,s.check(),round(time.time()-t0,2))
