import time,sys
from z3 import *
t=int(sys.argv[1])
s=Solver()
coef=[Real('a%d'%i) for i in range(t+1)]
xs=[Real('x%d'%i) for i in range(t+1)]
for i,x in enumerate(xs):
    s.add(x!=0)
    for j in range(i): s.add(x!=xs[j])
def ev(x):
    acc=coef[t]
    for i in range(t-1,-1,-1): acc=acc*x+coef[i]
    return acc
ys=[ev(x) for x in xs]
rec=RealVal(0)
for i in range(t+1):
    num=RealVal(1); den=RealVal(1)
    for j in range(t+1):
        if j!=i: num=num*xs[j]; den=den*(xs[j]-xs[i])
    inv=Real('inv%d'%i); s.add(inv*den==1)
    rec=rec+ys[i]*num*inv
s.add(rec!=coef[0])
t0=time.time(); print('real',t,s.check(),round(time.time()-t0,2))
