import time
from z3 import *
Q=3329
def t(name, s):
    t0=time.time(); r=s.check(); print(name, r, round(time.time()-t0,2))
# barrettReduce: int16 x -> x - int16((int32(x)*20159)>>26)*Q ; claim 0<=y<=q and y≡x mod q
x=BitVec('x',16)
y = x - Extract(15,0, (SignExt(16,x)*BitVecVal(20159,32))>>26)*BitVecVal(Q,16)
s=Solver()
ys=SignExt(16,y); xs=SignExt(16,x)
s.add(Not(And(ys>=0, ys<=Q, SRem(ys-xs, BitVecVal(Q,32))==0)))
t('barrett',s)
# exactness: y==q iff x is negative multiple of q
s=Solver(); s.add((y==Q) != And(xs<0, SRem(xs,BitVecVal(Q,32))==0)); t('barrett-q-iff',s)
# montReduce: int32 x with -2^15 q <= x < 2^15 q: y in (-q,q), y*2^16 ≡ x mod q
X=BitVec('X',32)
m=Extract(15,0,X*BitVecVal(62209,32))
yy=Extract(15,0, LShR(X - SignExt(16,m)*BitVecVal(Q,32),16))
s=Solver()
s.add(X >= -(2**15)*Q, X < (2**15)*Q)
y64=SignExt(48,yy); X64=SignExt(32,X)
s.add(Not(And(y64>-Q, y64<Q, SRem(y64*65536 - X64, BitVecVal(Q,64))==0)))
t('montReduce',s)
# dilithium montReduceLe2Q
Qd=8380417
xx=BitVec('xx',64)
mm=(xx*BitVecVal(4236238847,64)) & BitVecVal(2**32-1,64)
r=LShR(xx+mm*BitVecVal(Qd,64),32)
s=Solver(); s.add(ULT(xx, BitVecVal(2**32*Qd,64)))  # assume x < 2^32 q
# claim r < 2q and r*2^32 ≡ x mod q
s.add(Not(And(ULT(r,2*Qd), URem(ZeroExt(64,r)*BitVecVal(2**32,128) , BitVecVal(Qd,128)) == URem(ZeroExt(64,xx),BitVecVal(Qd,128)))))
t('dil montReduceLe2Q',s)
