import time, sys
from z3 import *
B=2**64
def add64(x,y,c):
    s=x+y+c
    return s%B, s/B
def mulc(x,c):
    p=x*c
    return p/B, p%B
Z=IntVal(0)
def red64(x):
    x0,x1,x2,x3,x4,x5,x6,x7 = x
    h0,l0=mulc(x4,38);h1,l1=mulc(x5,38);h2,l2=mulc(x6,38);h3,l3=mulc(x7,38)
    l1,c0=add64(h0,l1,Z);l2,c1=add64(h1,l2,c0);l3,c2=add64(h2,l3,c1);l4,_=add64(h3,Z,c2)
    l0,c0=add64(l0,x0,Z);l1,c1=add64(l1,x1,c0);l2,c2=add64(l2,x2,c1);l3,c3=add64(l3,x3,c2);l4,_=add64(l4,Z,c3)
    _,l4=mulc(l4,38)
    l0,c0=add64(l0,l4,Z);z1,c1=add64(l1,Z,c0);z2,c2=add64(l2,Z,c1);z3,c3=add64(l3,Z,c2)
    z0,_=add64(l0,c3*38,Z)   # (-c3)&38 == 38*c3 for c3 in {0,1}
    return [z0,z1,z2,z3]
x=[Int('x%d'%i) for i in range(8)]
s=Solver()
for v in x: s.add(v>=0, v<B)
z=red64(x)
X=sum(v*B**i for i,v in enumerate(x)); Zw=sum(v*B**i for i,v in enumerate(z))
P=2**255-19
s.add((X-Zw)%P != 0)
open('red64_int.smt2','w').write(s.to_smt2())
t0=time.time(); print(s.check(), time.time()-t0)
