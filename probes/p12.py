import time, sys
from z3 import *
B=2**64
s=Solver()
cnt=[0]
def fresh(n,hi):
    cnt[0]+=1
    v=Int('%s_%d'%(n,cnt[0])); s.add(v>=0, v<=hi); return v
dropped=[]
def add64(x,y,c,drop=False):
    lo=fresh('lo',B-1); cy=fresh('c',1)
    s.add(x+y+c == lo + B*cy)
    if drop: dropped.append(cy)
    return lo,cy
prods={}
def mul64(x,y):
    key=tuple(sorted([str(x),str(y)]))
    if key not in prods:
        m=Int('M_%s_%s'%key); s.add(m>=0, m<=(B-1)*(B-1)); prods[key]=m
    m=prods[key]
    hi=fresh('hi',B-2); lo=fresh('lo',B-1); s.add(m==hi*B+lo); return hi,lo
Z=IntVal(0)
def fields(x):
    a=fresh('fa',1); b=fresh('fb',2**31-1); c=fresh('fc',2**32-1)
    s.add(x==a*2**63+b*2**32+c); return a,b,c
def red64(l,h):
    F=[fields(v) for v in h]
    hi32=lambda i: F[i][0]*2**31+F[i][1]
    lo32=lambda i: F[i][2]
    top=lambda i: F[i][0]
    shl1=lambda i: F[i][1]*2**33+F[i][2]*2      # (x<<1) mod 2^64
    H=[h[0],h[1],h[2], F[3][1]*2**33 + F[3][2],  top(3)+shl1(4), top(4)+shl1(5), top(5)+shl1(6), top(6)]
    L=list(l); c=Z; out=[None]*8
    for j in range(7): out[j],c=add64(H[j],L[j],c)
    out[7],_=add64(H[7],Z,c,True)
    L=out
    cat=lambda a,b: hi32(a)+lo32(b)*2**32
    H=[cat(3,4),cat(4,5),cat(5,6),cat(6,0),cat(0,1),cat(1,2),cat(2,3)]
    c=Z; out=[None]*8
    for j in range(7): out[j],c=add64(L[j],H[j],c)
    out[7],_=add64(L[7],Z,c,True)
    L=out
    def fold(L,last):
        l7=L[7]
        u=fresh('u',2**32-1); v=fresh('v',2**32-1); s.add(l7==u*2**32+v); dropped.append(u)
        sh=v*2**32
        o=[None]*8
        o[0],c=add64(L[0],l7,Z); o[1],c=add64(L[1],Z,c); o[2],c=add64(L[2],Z,c)
        o[3],c=add64(L[3],sh,c); o[4],c=add64(L[4],Z,c); o[5],c=add64(L[5],Z,c)
        o[6],o[7]=add64(L[6],Z,c,last)
        return o
    L=fold(L,False); L=fold(L,True)
    return L[:7]
def mulGeneric(x,y):
    zz=[None]*7
    yi=y[0]
    hl=[mul64(x[j],yi) for j in range(7)]
    h=[a for a,b in hl]; l=[b for a,b in hl]
    zz[0]=l[0]
    a=[None]*7; c=Z
    for j in range(6):
        a[j],c=add64(h[j],l[j+1],c)
    a[6],_=add64(h[6],Z,c,True)
    for i in range(1,7):
        yi=y[i]
        hl=[mul64(x[j],yi) for j in range(7)]
        h=[p for p,q in hl]; l=[q for p,q in hl]
        zz[i],c=add64(a[0],l[0],Z)
        na=[None]*7
        for j in range(5):
            na[j],c=add64(a[j+1],l[j+1],c)
        na[5],na[6]=add64(a[6],l[6],c)
        a=na
        c=Z
        for j in range(6):
            a[j],c=add64(a[j],h[j],c)
        a[6],_=add64(a[6],h[6],c,True)
    return zz,a

x=[Int('x%d'%i) for i in range(7)]; y=[Int('y%d'%i) for i in range(7)]
for v in x+y: s.add(v>=0, v<B)
zz,a=mulGeneric(x,y)
spec=sum(prods[tuple(sorted([str(x[i]),str(y[j])]))]*B**(i+j) for i in range(7) for j in range(7))
P=2**448-2**224-1
z=red64(zz,a)
import sys
if sys.argv[1]=='ranges':
    for i,d in enumerate(dropped):
        s.push(); s.add(d!=0); t0=time.time(); r=s.check(); print('dropped',i,r,round(time.time()-t0,2),flush=True); s.pop()
    sys.exit()
for d in dropped: s.add(d==0)
Zw=sum(v*B**i for i,v in enumerate(z)); s.add((spec-Zw)%P!=0)
t0=time.time(); print('fp448 full', s.check(), round(time.time()-t0,2))
