import time
from z3 import *
Q=3329
def t(name,s):
    t0=time.time(); r=s.check(); print(name,r,round(time.time()-t0,2))
x=BitVec('x',16)
for d in (4,5):
    s=Solver(); s.add(ULT(x,Q))
    xx=ZeroExt(16,x)
    impl=(LShR(((xx<<d)+Q//2)*315,20)) & ((1<<d)-1)
    spec=UDiv((xx<<d)+Q//2, BitVecVal(Q,32)) & ((1<<d)-1)
    s.add(impl!=spec); t('compress d=%d'%d,s)
for d in (10,11):
    s=Solver(); s.add(ULT(x,Q))
    xx=ZeroExt(48,x)
    impl=(LShR(((xx<<d)+Q//2)*20642679,36)) & ((1<<d)-1)
    spec=UDiv((xx<<d)+Q//2, BitVecVal(Q,64)) & ((1<<d)-1)
    s.add(impl!=spec); t('compress d=%d'%d,s)
# dilithium decompose alpha=523776 (gamma2=(q-1)/32)
Qd=8380417
a=BitVec('a',32)
def decompose(a,Alpha):
    a1=LShR(a+127,7)
    if Alpha==523776:
        a1=LShR(a1*1025+(1<<21),22); a1=a1&15
    else:
        a1=LShR(a1*11275+(1<<23),24); a1=a1 ^ ((( (43-a1))>>31) & a1)
    a0=a-a1*Alpha
    a0=a0+(((a0-(Qd-1)//2)>>31)&Qd)
    return a0,a1
for Alpha in (523776,190464):
    s=Solver(); s.add(ULT(a,Qd))
    a0q,a1=decompose(a,Alpha)
    # spec FIPS204 Alg 36: r0 = r mod± alpha; if r - r0 = q-1 then r1=0, r0=r0-1 else r1=(r-r0)/alpha
    r0=URem(a,Alpha); r0=If(UGT(r0,Alpha//2), r0-Alpha, r0)  # signed in two's complement
    cond=(a-r0)==Qd-1
    r1=If(cond,BitVecVal(0,32),UDiv(a-r0,BitVecVal(Alpha,32)))
    r0=If(cond,r0-1,r0)
    # impl returns a0+Q representation: a0q ≡ r0 + Q ?  (r0 negative -> Q+r0)
    s.add(Or(a1!=r1, a0q != r0+Qd))
    t('decompose alpha=%d'%Alpha,s)
