import time
from z3 import *
def t(name, s):
    t0=time.time(); r=s.check(); print(name, r, round(time.time()-t0,2))
Qd=8380417
s=Solver()
x=Int('x'); s.add(x>=0, x<2**32*Qd)
# m = (x*qinv) & (2^32-1)
m=Int('m'); k=Int('k'); s.add(m>=0,m<2**32,k>=0, x*4236238847 == m + 2**32*k)
# r = (x + m*q) >> 32  (64-bit wrap: x+m*q < 2^64? need no-wrap obligations) 
t_=x+m*Qd
r=Int('r'); lo=Int('lo'); s.add(lo>=0, lo<2**32, r>=0, t_ == r*2**32+lo)
s.add(Not(And(t_<2**64, r<2*Qd, (r*2**32 - x)%Qd==0)))
t('dil montReduceLe2Q LIA',s)
Q=3329
s=Solver()
X=Int('X'); s.add(X>=-(2**15)*Q, X<(2**15)*Q)
# m=int16(X*62209): mm = (X*62209) mod 2^16 in [0,2^16); m = mm>=2^15? mm-2^16: mm
mm=Int('mm'); kk=Int('kk'); s.add(mm>=0, mm<2**16, X*62209 == mm + 2**16*kk)
m=If(mm>=2**15, mm-2**16, mm)
# t = int32 wrap of X - m*Q ; uint32(t)>>16 ; int16
tt=X-m*Q
u=Int('u'); k2=Int('k2'); s.add(u>=0,u<2**32, tt == u + 2**32*k2)
h=Int('h'); l=Int('l'); s.add(l>=0,l<2**16,h>=0,h<2**16, u==h*2**16+l)
y=If(h>=2**15,h-2**16,h)
s.add(Not(And(y>-Q,y<Q,(y*2**16-X)%Q==0)))
t('kyber montReduce LIA',s)
