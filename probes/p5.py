import time, sys
from z3 import *
B=2**64
s=Solver()
cnt=[0]
def fresh(n,hi):
    cnt[0]+=1
    v=Int('%s_%d'%(n,cnt[0])); s.add(v>=0, v<=hi); return v
def add64(x,y,c):
    lo=fresh('lo',B-1); cy=fresh('c',1)
    s.add(x+y+c == lo + B*cy)
    return lo,cy
prods={}
def mul64(x,y):
    if isinstance(y,int):
        hi=fresh('hi',y); lo=fresh('lo',B-1); s.add(x*y==hi*B+lo); return hi,lo
    key=tuple(sorted([str(x),str(y)]))
    if key not in prods:
        m=Int('M_%s_%s'%key); s.add(m>=0, m<=(B-1)*(B-1)); prods[key]=m
    m=prods[key]
    hi=fresh('hi',B-2); lo=fresh('lo',B-1); s.add(m==hi*B+lo); return hi,lo
Z=IntVal(0)
def red64(x):
    x0,x1,x2,x3,x4,x5,x6,x7 = x
    h0,l0=mul64(x4,38);h1,l1=mul64(x5,38);h2,l2=mul64(x6,38);h3,l3=mul64(x7,38)
    l1,c0=add64(h0,l1,Z);l2,c1=add64(h1,l2,c0);l3,c2=add64(h2,l3,c1);l4,_=add64(h3,Z,c2)
    l0,c0=add64(l0,x0,Z);l1,c1=add64(l1,x1,c0);l2,c2=add64(l2,x2,c1);l3,c3=add64(l3,x3,c2);l4,_=add64(l4,Z,c3)
    _,l4=mul64(l4,38)
    l0,c0=add64(l0,l4,Z);z1,c1=add64(l1,Z,c0);z2,c2=add64(l2,Z,c1);z3,c3=add64(l3,Z,c2)
    z0,_=add64(l0,c3*38,Z)
    return [z0,z1,z2,z3]
def mulGeneric(x,y):
    x0,x1,x2,x3=x; y0,y1,y2,y3=y
    yi=y0
    h0,l0=mul64(x0,yi);h1,l1=mul64(x1,yi);h2,l2=mul64(x2,yi);h3,l3=mul64(x3,yi)
    z0=l0
    a0,c0=add64(h0,l1,Z);a1,c1=add64(h1,l2,c0);a2,c2=add64(h2,l3,c1);a3,_=add64(h3,Z,c2)
    zs=[z0]
    for yi in (y1,y2,y3):
        h0,l0=mul64(x0,yi);h1,l1=mul64(x1,yi);h2,l2=mul64(x2,yi);h3,l3=mul64(x3,yi)
        zk,c0=add64(a0,l0,Z)
        h0,c1=add64(h0,l1,c0);h1,c2=add64(h1,l2,c1);h2,c3=add64(h2,l3,c2);h3,_=add64(h3,Z,c3)
        a0,c0=add64(a1,h0,Z);a1,c1=add64(a2,h1,c0);a2,c2=add64(a3,h2,c1);a3,_=add64(Z,h3,c2)
        zs.append(zk)
    return zs+[a0,a1,a2,a3]
x=[Int('x%d'%i) for i in range(4)]; y=[Int('y%d'%i) for i in range(4)]
for v in x+y: s.add(v>=0, v<B)
w=mulGeneric(x,y)
mode=sys.argv[1]
if mode=='wide':
    spec=sum(prods[tuple(sorted([str(x[i]),str(y[j])]))]*B**(i+j) for i in range(4) for j in range(4))
    W=sum(v*B**i for i,v in enumerate(w))
    s.add(W!=spec)
else:
    z=red64(w)
    spec=sum(prods[tuple(sorted([str(x[i]),str(y[j])]))]*B**(i+j) for i in range(4) for j in range(4))
    Zw=sum(v*B**i for i,v in enumerate(z))
    P=2**255-19
    s.add((spec-Zw)%P != 0)
open('mul_%s.smt2'%mode,'w').write("(set-logic QF_UFLIA)\n"+s.to_smt2())
t0=time.time(); print(mode, s.check(), time.time()-t0)
