import time,sys
from z3 import *
p=int(sys.argv[1]); t=int(sys.argv[2]); W=2*p.bit_length()+2
P=BitVecVal(p,W)
s=Solver()
def fe(n):
    v=BitVec(n,W); s.add(ULT(v,P)); return v
mul=lambda a,b: URem(a*b,P)
add=lambda a,b: URem(a+b,P)
sub=lambda a,b: URem(a+P-b,P)
def inv(a,n):
    y=fe(n); s.add(mul(a,y)==1); return y
coef=[fe('a%d'%i) for i in range(t+1)]
xs=[fe('x%d'%i) for i in range(t+1)]
for i,x in enumerate(xs):
    s.add(x!=0)
    for j in range(i): s.add(x!=xs[j])
def ev(x):
    acc=coef[t]
    for i in range(t-1,-1,-1): acc=add(mul(acc,x),coef[i])
    return acc
ys=[ev(x) for x in xs]
rec=BitVecVal(0,W)
for i in range(t+1):
    num=BitVecVal(1,W); den=BitVecVal(1,W)
    for j in range(t+1):
        if j!=i:
            num=mul(num,xs[j]); den=mul(den,sub(xs[j],xs[i]))
    rec=add(rec,mul(ys[i],mul(num,inv(den,'inv%d'%i))))
s.add(rec!=coef[0])
t0=time.time(); print(p,t,s.check(),round(time.time()-t0,2))
