import time, sys
from z3 import *
B=2**64
s=Solver()
cnt=[0]
def fresh(n,hi):
    cnt[0]+=1
    v=Int('%s_%d'%(n,cnt[0])); s.add(v>=0, v<=hi); return v
def add64(x,y,c):
    lo=fresh('lo',B-1); cy=fresh('c',1)
    s.add(x+y+c == lo + B*cy)
    return lo,cy
prods={}
def mul64(x,y):
    key=tuple(sorted([str(x),str(y)]))
    if key not in prods:
        m=Int('M_%s_%s'%key); s.add(m>=0, m<=(B-1)*(B-1)); prods[key]=m
    m=prods[key]
    hi=fresh('hi',B-2); lo=fresh('lo',B-1); s.add(m==hi*B+lo); return hi,lo
def split(x,k):  # x = hi*2^k+lo
    hi=fresh('sh',2**(64-k)-1); lo=fresh('sl',2**k-1); s.add(x==hi*2**k+lo); return hi,lo
Z=IntVal(0)
def mulGeneric(x,y):
    zz=[None]*7
    yi=y[0]
    hl=[mul64(x[j],yi) for j in range(7)]
    h=[a for a,b in hl]; l=[b for a,b in hl]
    zz[0]=l[0]
    a=[None]*7; c=Z
    for j in range(6):
        a[j],c=add64(h[j],l[j+1],c)
    a[6],_=add64(h[6],Z,c)
    for i in range(1,7):
        yi=y[i]
        hl=[mul64(x[j],yi) for j in range(7)]
        h=[p for p,q in hl]; l=[q for p,q in hl]
        zz[i],c=add64(a[0],l[0],Z)
        na=[None]*7
        for j in range(5):
            na[j],c=add64(a[j+1],l[j+1],c)
        na[5],na[6]=add64(a[6],l[6],c)
        a=na
        c=Z
        for j in range(6):
            a[j],c=add64(a[j],h[j],c)
        a[6],_=add64(a[6],h[6],c)
    return zz,a
def red64(l,h):
    # h3' = ((h3 & hi32mask)<<1) | (h3 & lo32)  -> hi32(h3)*2^33 mod 2^64 + lo32(h3)
    h3hi,h3lo=split(h[3],32)
    t=fresh('t',B-1); k=fresh('k',1); s.add(h3hi*2**33 == t + B*k)   # (x<<1) wraps
    H=[h[0],h[1],h[2], t+h3lo]
    def top(x):  # x>>63, (x<<1) mod 2^64
        hi,lo=split(x,63); return hi, lo*2
    t3,_=top(h[3]); t4,s4=top(h[4]); t5,s5=top(h[5]); t6,s6=top(h[6])
    H+= [t3+s4, t4+s5, t5+s6, t6]
    L=list(l); c=Z
    out=[None]*8
    for j in range(7):
        out[j],c=add64(H[j],L[j],c)
    out[7],_=add64(H[7],Z,c)
    L=out
    sp=[split(h[j],32) for j in range(7)]
    def cat(a,b): # (h[a]>>32)|(h[b]<<32)
        return sp[a][0]+sp[b][1]*2**32
    H=[cat(3,4),cat(4,5),cat(5,6),cat(6,0),cat(0,1),cat(1,2),cat(2,3)]
    c=Z; out=[None]*8
    for j in range(7):
        out[j],c=add64(L[j],H[j],c)
    out[7],_=add64(L[7],Z,c)
    L=out
    def fold(L,last):
        l7=L[7]
        _,lo=split(l7,32); sh=lo*2**32   # l7<<32 wraps
        o=[None]*8
        o[0],c=add64(L[0],l7,Z); o[1],c=add64(L[1],Z,c); o[2],c=add64(L[2],Z,c)
        o[3],c=add64(L[3],sh,c); o[4],c=add64(L[4],Z,c); o[5],c=add64(L[5],Z,c)
        o[6],o[7]=add64(L[6],Z,c)
        return o
    L=fold(L,False); L=fold(L,True)
    return L[:7]
x=[Int('x%d'%i) for i in range(7)]; y=[Int('y%d'%i) for i in range(7)]
for v in x+y: s.add(v>=0, v<B)
zz,a=mulGeneric(x,y)
mode=sys.argv[1]
spec=sum(prods[tuple(sorted([str(x[i]),str(y[j])]))]*B**(i+j) for i in range(7) for j in range(7))
P=2**448-2**224-1
if mode=='wide':
    W=sum(v*B**i for i,v in enumerate(zz+a)); s.add(W!=spec)
elif mode=='red':
    s2=Solver(); s=s2; 
    l=[Int('l%d'%i) for i in range(7)]; h=[Int('h%d'%i) for i in range(7)]
    for v in l+h: s.add(v>=0,v<B)
    z=red64(l,h)
    X=sum(v*B**i for i,v in enumerate(l+h)); Zw=sum(v*B**i for i,v in enumerate(z))
    s.add((X-Zw)%P!=0)
else:
    z=red64(zz,a); Zw=sum(v*B**i for i,v in enumerate(z)); s.add((spec-Zw)%P!=0)
t0=time.time(); print(mode, s.check(), round(time.time()-t0,2))
