import time, sys
from z3 import *
exec(open('p1.py').read().split("mode=sys.argv[1]")[0])
mode=sys.argv[1]
s=Solver()
lo=wide(x[:4],W); hi=wide(x[4:],W)
M=BitVecVal(2**256-38,W)
if mode=='fold2':
    t=lo+hi*38
    t2=(t & BitVecVal(2**256-1,W)) + LShR(t,256)*38
    s.add(And(Zw!=t2, Zw+M!=t2))
elif mode=='uremM':
    s.add(URem(X,M) != URem(Zw,M))
open('red64_%s.smt2'%mode,'w').write("(set-logic QF_BV)\n"+s.to_smt2())
