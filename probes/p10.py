import time, sys
from z3 import *
B=2**64
s=Solver()
cnt=[0]
def fresh(n,hi):
    cnt[0]+=1
    v=Int('%s_%d'%(n,cnt[0])); s.add(v>=0, v<=hi); return v
dropped=[]
def add64(x,y,c,drop=False):
    lo=fresh('lo',B-1); cy=fresh('c',1)
    s.add(x+y+c == lo + B*cy)
    if drop: dropped.append(cy)
    return lo,cy
Z=IntVal(0)
def fields(x):
    a=fresh('fa',1); b=fresh('fb',2**31-1); c=fresh('fc',2**32-1)
    s.add(x==a*2**63+b*2**32+c); return a,b,c
def red64(l,h):
    F=[fields(v) for v in h]
    hi32=lambda i: F[i][0]*2**31+F[i][1]
    lo32=lambda i: F[i][2]
    top=lambda i: F[i][0]
    shl1=lambda i: F[i][1]*2**33+F[i][2]*2      # (x<<1) mod 2^64
    H=[h[0],h[1],h[2], F[3][1]*2**33 + F[3][2],  top(3)+shl1(4), top(4)+shl1(5), top(5)+shl1(6), top(6)]
    L=list(l); c=Z; out=[None]*8
    for j in range(7): out[j],c=add64(H[j],L[j],c)
    out[7],_=add64(H[7],Z,c,True)
    L=out
    cat=lambda a,b: hi32(a)+lo32(b)*2**32
    H=[cat(3,4),cat(4,5),cat(5,6),cat(6,0),cat(0,1),cat(1,2),cat(2,3)]
    c=Z; out=[None]*8
    for j in range(7): out[j],c=add64(L[j],H[j],c)
    out[7],_=add64(L[7],Z,c,True)
    L=out
    def fold(L,last):
        l7=L[7]
        u=fresh('u',2**32-1); v=fresh('v',2**32-1); s.add(l7==u*2**32+v); dropped.append(u)
        sh=v*2**32
        o=[None]*8
        o[0],c=add64(L[0],l7,Z); o[1],c=add64(L[1],Z,c); o[2],c=add64(L[2],Z,c)
        o[3],c=add64(L[3],sh,c); o[4],c=add64(L[4],Z,c); o[5],c=add64(L[5],Z,c)
        o[6],o[7]=add64(L[6],Z,c,last)
        return o
    L=fold(L,False); L=fold(L,True)
    return L[:7]
l=[Int('l%d'%i) for i in range(7)]; h=[Int('h%d'%i) for i in range(7)]
for v in l+h: s.add(v>=0,v<B)
z=red64(l,h)
P=2**448-2**224-1
X=sum(v*B**i for i,v in enumerate(l+h)); Zw=sum(v*B**i for i,v in enumerate(z))
mode=sys.argv[1]
if mode=='assume0':
    for d in dropped: s.add(d==0)
    s.add((X-Zw)%P!=0)
elif mode=='plain':
    s.add((X-Zw)%P!=0)
elif mode=='ranges':
    # prove each dropped is zero, one by one
    for i,d in enumerate(dropped):
        s.push(); s.add(d!=0); t0=time.time(); r=s.check(); print('dropped',i,d,r,round(time.time()-t0,2)); s.pop()
    sys.exit()
t0=time.time(); print(mode, s.check(), round(time.time()-t0,2))
