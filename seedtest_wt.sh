#!/bin/sh
# usage: seedtest_wt.sh <seed-dir> <property> [extra gosmt args]  -- like seedtest.sh, but applies the seeded patch in a scratch
# worktree (/tmp/seedwt_<seed>) and points the engine at it, so /repo is never touched (checks may run against /repo meanwhile)
set -u
S=$1; P=$2; shift 2
W=/tmp/seedwt_$S
git -C /repo worktree remove --force $W 2>/dev/null
git -C /repo worktree add -q --detach $W HEAD || exit 3
git -C $W apply /verif/seeded/$S/patch.diff || { echo "patch does not apply"; git -C /repo worktree remove --force $W; exit 3; }
export GOFLAGS=-mod=mod GOPROXY=off GOSUMDB=off GOTOOLCHAIN=local
/verif/bin/gosmt check -repo $W -prop "$P" -tier "${TIER:-quick}" -harness /verif/harness -known /verif/known_findings.json -replaydir /tmp/seed_replay -out /tmp/seed_evidence_${S}_$P.json "$@" 2>&1 | grep -E "finding|VIOLATION|INCONCL|harnesses held" | cut -c1-260
/verif/bin/gosmt check -repo $W -prop "$P" -tier "${TIER:-quick}" -harness /verif/harness_default -tags "math_big_pure_go,appengine" -known /verif/known_findings.json -replaydir /tmp/seed_replay -out /tmp/seed_evidence_${S}_${P}_default.json "$@" 2>&1 | grep -E "finding|VIOLATION|INCONCL|harnesses held" | cut -c1-260
git -C /repo worktree remove --force $W
