#!/bin/sh
# usage: confirm_seed.sh <seed-dir-name> <package dir of the demo> [extra test pkgs...]
# Confirms in a scratch worktree: existing tests pass with the patch, demo fails with it, demo passes without it.
set -u
S=$1; PKG=$2; shift 2
export GOFLAGS=-mod=mod GOPROXY=off GOSUMDB=off GOTOOLCHAIN=local
WT=/tmp/confirm_$S
git -C /repo worktree add -q --detach $WT HEAD || exit 3
cd $WT
git apply /verif/seeded/$S/patch.diff || { echo "APPLY FAILED"; exit 3; }
echo "== existing tests with patch:"; go test -count=1 ./$PKG/... "$@" 2>&1 | grep -v "no test files" | tail -8
cp /verif/seeded/$S/zz_demo_test.go $PKG/zz_demo_test.go
echo "== demo with patch (expect FAIL):"; go test -count=1 -run Demo ./$PKG/ 2>&1 | tail -3
git checkout -q -- . 
echo "== demo without patch (expect ok):"; go test -count=1 -run Demo ./$PKG/ 2>&1 | tail -3
cd /; git -C /repo worktree remove --force $WT
